package rig

import (
	"context"
	"fmt"
	"time"

	"reservoir/cache"
	"reservoir/config"
	"reservoir/utils/bytesize"
	"reservoir/utils/duration"
)

// Obj is the metadata object cache-level monitors store: it names the key and version
// the bytes were written for.
type Obj struct {
	K, V int
}

// VCache is a cache backend with the tag-guarded accessors.
type VCache interface {
	cache.Cache[Obj]
	VerifRunCleanupCycle()
	VerifLimits() (int64, int64)
	VerifByteSize() int64
	VerifLen() int
	VerifKeys() []cache.CacheKey
}

// CacheOpts configures NewCache.
type CacheOpts struct {
	Backend  string // memory | file
	Dir      string // file backend
	Max      int64
	Interval time.Duration
	Shards   int
	Budget   int // memory_budget_percent (memory backend)
	Cfg      *config.Config
}

// NewCache builds a real cache backend the way proxy.NewProxy does.
func NewCache(ctx context.Context, o CacheOpts) (VCache, *config.Config) {
	cfg := o.Cfg
	if cfg == nil {
		cfg = config.NewDefault()
	}
	if o.Interval <= 0 {
		o.Interval = time.Hour
	}
	if o.Shards <= 0 {
		o.Shards = 16
	}
	if o.Budget == 0 {
		o.Budget = 75
	}
	// the configuration the janitor reads must agree with the constructor arguments, as in proxy.NewProxy
	if cfg.Cache.MaxCacheSize.Read().Bytes() != o.Max {
		cfg.Cache.MaxCacheSize.Overwrite(bytesize.ByteSize(o.Max))
	}
	if cfg.Cache.CleanupInterval.Read().Cast() != o.Interval {
		cfg.Cache.CleanupInterval.Overwrite(duration.Duration(o.Interval))
	}
	switch o.Backend {
	case "file":
		return cache.NewFileCache[Obj](cfg, o.Dir, o.Max, o.Interval, o.Shards, ctx), cfg
	case "memory":
		return cache.NewMemoryCache[Obj](cfg, o.Budget, o.Max, o.Interval, o.Shards, ctx), cfg
	}
	panic("unknown backend " + o.Backend)
}

// Key returns the cache key cache-level monitors use for key id k.
func Key(k int) cache.CacheKey { return cache.FromString(fmt.Sprintf("verif-key-%d", k)) }
