// Package rig is the test rig: self-describing bodies, scripted origin, proxy
// launcher, raw clients.
package rig

import (
	"fmt"
	"strconv"
)

// Body builds the N-byte self-describing body of resource r, version v: 16-byte blocks
// "rrrrvvvvooooooo\n" (hex resource, hex version, hex offset of the block), the last
// block cut to fit. Any byte range of it identifies resource, version and offset.
func Body(r, v, n int) []byte {
	out := make([]byte, 0, n+16)
	for off := 0; off < n; off += 16 {
		out = append(out, fmt.Sprintf("%04x%04x%07x\n", r&0xffff, v&0xffff, off)...)
	}
	return out[:n]
}

// BodyVerdict is the result of checking received bytes against the body scheme.
type BodyVerdict struct {
	Kind  string // complete | slice | truncated | extended | spliced | foreign | garbage | empty
	R, V  int
	From  int // offset of the first byte
	Len   int
	Other string // detail (e.g. second version of a splice)
}

func (b BodyVerdict) String() string {
	return fmt.Sprintf("%s(r=%d,v=%d,from=%d,len=%d%s)", b.Kind, b.R, b.V, b.From, b.Len, b.Other)
}

// CheckBody classifies data that is claimed to be bytes [from, from+len(data)) of the body
// (wantR, any version) of total length total (total < 0: unknown).
// It verifies every byte: each position must equal what Body(r,v,·) has there for ONE (r,v).
func CheckBody(data []byte, from int) BodyVerdict {
	n := len(data)
	if n == 0 {
		return BodyVerdict{Kind: "empty", From: from}
	}
	// find the first complete block to learn (r, v)
	r, v := -1, -1
	for pos := 0; pos < n; pos++ {
		abs := from + pos
		if abs%16 == 0 && pos+8 <= n {
			rr, e1 := strconv.ParseUint(string(data[pos:pos+4]), 16, 32)
			vv, e2 := strconv.ParseUint(string(data[pos+4:pos+8]), 16, 32)
			if e1 != nil || e2 != nil {
				return BodyVerdict{Kind: "garbage", From: from, Len: n}
			}
			r, v = int(rr), int(vv)
			break
		}
	}
	if r < 0 {
		// fewer than 8 aligned bytes: cannot identify; compare structure only
		return BodyVerdict{Kind: "slice", R: -1, V: -1, From: from, Len: n, Other: ",unidentified"}
	}
	want := Body(r, v, from+n)[from:]
	for i := 0; i < n; i++ {
		if data[i] != want[i] {
			// diagnose: does the rest belong to another version/resource?
			abs := from + i
			blk := abs - abs%16
			detail := fmt.Sprintf(",at=%d", abs)
			if blk-from >= 0 && blk-from+8 <= n {
				rr, e1 := strconv.ParseUint(string(data[blk-from:blk-from+4]), 16, 32)
				vv, e2 := strconv.ParseUint(string(data[blk-from+4:blk-from+8]), 16, 32)
				if e1 == nil && e2 == nil {
					if int(rr) != r {
						return BodyVerdict{Kind: "foreign", R: r, V: v, From: from, Len: n, Other: detail + fmt.Sprintf(",r2=%d", rr)}
					}
					if int(vv) != v {
						return BodyVerdict{Kind: "spliced", R: r, V: v, From: from, Len: n, Other: detail + fmt.Sprintf(",v2=%d", vv)}
					}
				}
			}
			return BodyVerdict{Kind: "garbage", R: r, V: v, From: from, Len: n, Other: detail}
		}
	}
	return BodyVerdict{Kind: "slice", R: r, V: v, From: from, Len: n}
}

// CheckFull classifies data claimed to be the complete body of length total.
func CheckFull(data []byte, total int) BodyVerdict {
	bv := CheckBody(data, 0)
	if bv.Kind == "empty" {
		if total == 0 {
			bv.Kind = "complete"
		} else if total > 0 {
			bv.Kind = "truncated"
		}
		return bv
	}
	if bv.Kind != "slice" {
		return bv
	}
	switch {
	case total < 0 || len(data) == total:
		bv.Kind = "complete"
	case len(data) < total:
		bv.Kind = "truncated"
	default:
		bv.Kind = "extended"
	}
	return bv
}
