package rig

import (
	"bufio"
	"crypto/sha256"
	"encoding/hex"
	"fmt"
	"io"
	"net"
	"net/http"
	"sync"
	"sync/atomic"
	"time"
)

// RawHandler returns the exact bytes the origin writes for a request and whether it closes
// the connection afterwards.
type RawHandler func(r *http.Request, rec *OriginReq) (response []byte, closeAfter bool)

// RawOrigin is an origin on a bare TCP listener: requests are parsed with http.ReadRequest
// (and logged like Origin does), responses are arbitrary bytes.
type RawOrigin struct {
	Addr    string
	ln      net.Listener
	mu      sync.Mutex
	log     []*OriginReq
	seq     atomic.Int64
	handler atomic.Value
	closed  atomic.Bool
}

func StartRawOrigin(h RawHandler) *RawOrigin {
	ln, err := net.Listen("tcp", "127.0.0.1:0")
	if err != nil {
		panic(err)
	}
	o := &RawOrigin{Addr: ln.Addr().String(), ln: ln}
	o.handler.Store(h)
	go func() {
		for {
			c, err := ln.Accept()
			if err != nil {
				return
			}
			go o.serveConn(c)
		}
	}()
	return o
}

func (o *RawOrigin) serveConn(c net.Conn) {
	defer c.Close()
	br := bufio.NewReader(c)
	for {
		req, err := http.ReadRequest(br)
		if err != nil {
			return
		}
		rec := &OriginReq{Seq: int(o.seq.Add(1)), At: Now(), Method: req.Method, RequestURI: req.RequestURI, Host: req.Host, Header: req.Header.Clone(), TE: req.TransferEncoding}
		body, _ := io.ReadAll(req.Body)
		rec.BodyLen = len(body)
		if len(body) > 0 {
			s := sha256.Sum256(body)
			rec.BodySHA = hex.EncodeToString(s[:8])
		}
		o.mu.Lock()
		o.log = append(o.log, rec)
		o.mu.Unlock()
		h := o.handler.Load().(RawHandler)
		resp, closeAfter := h(req, rec)
		_, werr := c.Write(resp)
		o.mu.Lock()
		rec.Done = Now()
		o.mu.Unlock()
		if werr != nil || closeAfter || req.Close {
			// Lingering close, as real servers do: closing a socket that still has unread input makes the
			// kernel send a RST, which can destroy response bytes the peer has not read yet. Half-close,
			// drain what the peer still sends (noting it), then close.
			if tc, ok := c.(*net.TCPConn); ok {
				tc.CloseWrite()
			}
			c.SetReadDeadline(time.Now().Add(500 * time.Millisecond))
			extra, _ := io.Copy(io.Discard, br)
			if extra > 0 {
				rec.AppendNote(fmt.Sprintf(";extra-bytes-after-request:%d", extra))
			}
			return
		}
	}
}

func (o *RawOrigin) Since(seq int) []OriginReq {
	o.mu.Lock()
	defer o.mu.Unlock()
	noteMu.Lock()
	defer noteMu.Unlock()
	var out []OriginReq
	for _, r := range o.log {
		if r.Seq > seq {
			out = append(out, *r)
		}
	}
	return out
}

func (o *RawOrigin) Log() []OriginReq { return o.Since(0) }
func (o *RawOrigin) LastSeq() int     { return int(o.seq.Load()) }
func (o *RawOrigin) Close()           { o.ln.Close() }
