package rig

import (
	"bufio"
	"crypto/sha256"
	"encoding/hex"
	"fmt"
	"io"
	"net"
	"net/http"
	"sync"
	"sync/atomic"
	"time"
)

var procStart = time.Now()

// Now is the single monotonic clock of a harness process (ns since process start).
func Now() int64 { return int64(time.Since(procStart)) }

// OriginReq is one request as the origin received it.
type OriginReq struct {
	Seq        int         `json:"seq"`
	At         int64       `json:"at_ns"`
	Done       int64       `json:"done_ns"`
	Method     string      `json:"method"`
	RequestURI string      `json:"request_uri"`
	Host       string      `json:"host"`
	Header     http.Header `json:"header"`
	BodyLen    int         `json:"body_len"`
	BodySHA    string      `json:"body_sha,omitempty"`
	TE         []string    `json:"te,omitempty"`
	Status     int         `json:"status"` // what the script answered
	Note       string      `json:"note,omitempty"`
}

// Origin is a scripted plain-HTTP origin that logs every request it receives.
type Origin struct {
	Addr    string // 127.0.0.1:port
	ln      net.Listener
	srv     *http.Server
	mu      sync.Mutex
	log     []*OriginReq
	seq     atomic.Int64
	handler atomic.Value // func(w http.ResponseWriter, r *http.Request, rec *OriginReq)
}

type OriginHandler func(w http.ResponseWriter, r *http.Request, rec *OriginReq)

func StartOrigin(h OriginHandler) *Origin {
	ln, err := net.Listen("tcp", "127.0.0.1:0")
	if err != nil {
		panic(err)
	}
	o := &Origin{Addr: ln.Addr().String(), ln: ln}
	o.handler.Store(h)
	o.srv = &http.Server{Handler: http.HandlerFunc(o.serve), ReadHeaderTimeout: 30 * time.Second}
	go o.srv.Serve(ln)
	return o
}

func (o *Origin) SetHandler(h OriginHandler) { o.handler.Store(h) }

func (o *Origin) serve(w http.ResponseWriter, r *http.Request) {
	rec := &OriginReq{Seq: int(o.seq.Add(1)), At: Now(), Method: r.Method, RequestURI: r.RequestURI, Host: r.Host, Header: r.Header.Clone(), TE: r.TransferEncoding}
	body, _ := io.ReadAll(r.Body)
	rec.BodyLen = len(body)
	if len(body) > 0 {
		s := sha256.Sum256(body)
		rec.BodySHA = hex.EncodeToString(s[:8])
	}
	o.mu.Lock()
	o.log = append(o.log, rec)
	o.mu.Unlock()
	sw := &statusWriter{ResponseWriter: w}
	h := o.handler.Load().(OriginHandler)
	defer func() {
		// runs also when a script aborts the transfer with panic(http.ErrAbortHandler)
		o.mu.Lock()
		rec.Done = Now()
		if sw.status == 0 {
			sw.status = 200
		}
		rec.Status = sw.status
		o.mu.Unlock()
	}()
	h(sw, r, rec)
}

type statusWriter struct {
	http.ResponseWriter
	status int
}

func (s *statusWriter) WriteHeader(c int) {
	if s.status == 0 {
		s.status = c
	}
	s.ResponseWriter.WriteHeader(c)
}

func (s *statusWriter) Write(b []byte) (int, error) {
	if s.status == 0 {
		s.status = 200
	}
	return s.ResponseWriter.Write(b)
}

func (s *statusWriter) Flush() {
	if f, ok := s.ResponseWriter.(http.Flusher); ok {
		f.Flush()
	}
}

// noteMu guards OriginReq.Note: scripts annotate a request while other goroutines snapshot the log.
var noteMu sync.Mutex

// SetNote annotates the request (thread-safe with respect to log snapshots).
func (r *OriginReq) SetNote(s string) {
	noteMu.Lock()
	r.Note = s
	noteMu.Unlock()
}

// AppendNote appends to the annotation.
func (r *OriginReq) AppendNote(s string) {
	noteMu.Lock()
	r.Note += s
	noteMu.Unlock()
}

// Log returns a snapshot of the request log.
func (o *Origin) Log() []OriginReq {
	o.mu.Lock()
	defer o.mu.Unlock()
	noteMu.Lock()
	defer noteMu.Unlock()
	out := make([]OriginReq, len(o.log))
	for i, r := range o.log {
		out[i] = *r
	}
	return out
}

// Count returns how many requests matched.
func (o *Origin) Count(match func(*OriginReq) bool) int {
	o.mu.Lock()
	defer o.mu.Unlock()
	n := 0
	for _, r := range o.log {
		if match(r) {
			n++
		}
	}
	return n
}

// Since returns requests with Seq > seq.
func (o *Origin) Since(seq int) []OriginReq {
	o.mu.Lock()
	defer o.mu.Unlock()
	noteMu.Lock()
	defer noteMu.Unlock()
	var out []OriginReq
	for _, r := range o.log {
		if r.Seq > seq {
			out = append(out, *r)
		}
	}
	return out
}

func (o *Origin) LastSeq() int { return int(o.seq.Load()) }

func (o *Origin) URL(path string) string { return "http://" + o.Addr + path }

func (o *Origin) Close() {
	o.srv.Close()
}

// ServeBody writes the standard versioned answer for resource r version v of n bytes.
func ServeBody(w http.ResponseWriter, r, v, n int, extra map[string]string) {
	h := w.Header()
	h.Set("ETag", ETag(r, v))
	h.Set("Last-Modified", LastMod(v))
	h.Set("Content-Type", CType(r, v))
	h.Set("X-Verif-Len", fmt.Sprint(n))
	h.Set("Content-Length", fmt.Sprint(n))
	for k, val := range extra {
		if val == "" {
			h.Del(k)
		} else {
			h.Set(k, val)
		}
	}
	w.WriteHeader(200)
	w.Write(Body(r, v, n))
}

func ETag(r, v int) string  { return fmt.Sprintf("\"%d-%d\"", r, v) }
func CType(r, v int) string { return fmt.Sprintf("application/x-verif; r=%d; v=%d", r, v) }

// LastMod derives a Last-Modified date from the version (one second per version, fixed epoch).
func LastMod(v int) string {
	return time.Date(2020, 1, 1, 0, 0, 0, 0, time.UTC).Add(time.Duration(v) * time.Second).Format(http.TimeFormat)
}

func (s *statusWriter) Hijack() (net.Conn, *bufio.ReadWriter, error) {
	if s.status == 0 {
		s.status = -1 // raw response written by the script
	}
	return s.ResponseWriter.(http.Hijacker).Hijack()
}
