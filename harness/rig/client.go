package rig

import (
	"bufio"
	"bytes"
	"crypto/tls"
	"crypto/x509"
	"errors"
	"fmt"
	"io"
	"net"
	"net/http"
	"strings"
	"time"
)

// Req is a client request in wire terms.
type Req struct {
	Method string
	// Target is the request-target as written on the wire: absolute-URI in plain proxy mode
	// ("http://host:port/path?q"), origin-form inside a tunnel ("/path?q").
	Target string
	Host   string      // Host header ("" = derived from Target / tunnel target)
	Header [][2]string // extra header lines, in order, sent verbatim
	Body   []byte
	// Chunked sends the body with Transfer-Encoding: chunked.
	Chunked bool
	// Raw, when set, is written instead of the composed request.
	Raw []byte

	// Client behaviour
	SlowReadEvery  int           // sleep SlowReadSleep after every this many body bytes (0 = off)
	SlowReadSleep  time.Duration //
	AbortAfterBody int           // close the socket after this many body bytes were read (-1/0 = never; use AbortAtHeaders for 0)
	AbortAtHeaders bool          // close right after the response headers arrived
	CloseAfterSend time.Duration // >0: close the socket this long after sending, without reading
	Timeout        time.Duration // overall I/O deadline (default 30 s)
}

// Resp is what the client observed.
type Resp struct {
	Status     int
	Proto      string
	Header     http.Header
	Body       []byte
	Err        error // transport / parse error ("" = well-formed response fully read)
	Aborted    bool  // the client itself closed early (by request)
	Call, Ret  int64 // ns, monotonic: before first byte written / after last byte read
	HeaderAt   int64
	ContentLen int64
	Chunked    bool
}

func (r *Resp) OK() bool { return r.Err == nil && !r.Aborted }

func (r *Resp) Get(h string) string {
	if r.Header == nil {
		return ""
	}
	return r.Header.Get(h)
}

func composeRequest(q Req, defaultHost string) []byte {
	if q.Raw != nil {
		return q.Raw
	}
	var b bytes.Buffer
	m := q.Method
	if m == "" {
		m = "GET"
	}
	fmt.Fprintf(&b, "%s %s HTTP/1.1\r\n", m, q.Target)
	host := q.Host
	if host == "" {
		host = defaultHost
	}
	hasHost := false
	for _, h := range q.Header {
		if strings.EqualFold(h[0], "Host") {
			hasHost = true
		}
	}
	if !hasHost {
		fmt.Fprintf(&b, "Host: %s\r\n", host)
	}
	for _, h := range q.Header {
		fmt.Fprintf(&b, "%s: %s\r\n", h[0], h[1])
	}
	if q.Chunked {
		b.WriteString("Transfer-Encoding: chunked\r\n\r\n")
		body := q.Body
		for len(body) > 0 {
			n := len(body)
			if n > 1000 {
				n = 1000
			}
			fmt.Fprintf(&b, "%x\r\n", n)
			b.Write(body[:n])
			b.WriteString("\r\n")
			body = body[n:]
		}
		b.WriteString("0\r\n\r\n")
	} else {
		if len(q.Body) > 0 || m == "POST" || m == "PUT" || m == "PATCH" {
			fmt.Fprintf(&b, "Content-Length: %d\r\n", len(q.Body))
		}
		b.WriteString("\r\n")
		b.Write(q.Body)
	}
	return b.Bytes()
}

func hostOfTarget(t string) string {
	s := strings.TrimPrefix(strings.TrimPrefix(t, "http://"), "https://")
	if i := strings.IndexAny(s, "/?#"); i >= 0 {
		s = s[:i]
	}
	return s
}

// exchange writes a request on conn and reads one response.
func exchange(conn net.Conn, br *bufio.Reader, q Req, defaultHost string) *Resp {
	r := &Resp{}
	to := q.Timeout
	if to == 0 {
		to = 30 * time.Second
	}
	conn.SetDeadline(time.Now().Add(to))
	wire := composeRequest(q, defaultHost)
	r.Call = Now()
	if _, err := conn.Write(wire); err != nil {
		r.Err = fmt.Errorf("write: %w", err)
		r.Ret = Now()
		return r
	}
	if q.CloseAfterSend > 0 {
		time.Sleep(q.CloseAfterSend)
		conn.Close()
		r.Aborted = true
		r.Ret = Now()
		return r
	}
	method := q.Method
	if method == "" {
		method = "GET"
	}
	if q.Raw != nil {
		if i := bytes.IndexByte(q.Raw, ' '); i > 0 {
			method = string(q.Raw[:i])
		}
	}
	resp, err := http.ReadResponse(br, &http.Request{Method: method})
	r.HeaderAt = Now()
	if err != nil {
		r.Err = fmt.Errorf("read response: %w", err)
		r.Ret = Now()
		return r
	}
	r.Status, r.Proto, r.Header, r.ContentLen = resp.StatusCode, resp.Proto, resp.Header, resp.ContentLength
	for _, te := range resp.TransferEncoding {
		if te == "chunked" {
			r.Chunked = true
		}
	}
	if q.AbortAtHeaders {
		conn.Close()
		r.Aborted = true
		r.Ret = Now()
		return r
	}
	var body bytes.Buffer
	buf := make([]byte, 1024)
	sinceSleep := 0
	for {
		n, err := resp.Body.Read(buf)
		body.Write(buf[:n])
		sinceSleep += n
		if q.AbortAfterBody > 0 && body.Len() >= q.AbortAfterBody {
			conn.Close()
			r.Aborted = true
			break
		}
		if q.SlowReadEvery > 0 && sinceSleep >= q.SlowReadEvery {
			sinceSleep = 0
			time.Sleep(q.SlowReadSleep)
			conn.SetDeadline(time.Now().Add(to))
		}
		if err == io.EOF {
			break
		}
		if err != nil {
			r.Err = fmt.Errorf("read body after %d bytes: %w", body.Len(), err)
			break
		}
	}
	r.Body = body.Bytes()
	r.Ret = Now()
	return r
}

// PlainDo sends one request through the proxy in plain (absolute-URI) mode on a fresh connection.
func PlainDo(proxyAddr string, q Req) *Resp {
	conn, err := net.DialTimeout("tcp", proxyAddr, 10*time.Second)
	if err != nil {
		return &Resp{Err: fmt.Errorf("dial proxy: %w", err), Call: Now(), Ret: Now()}
	}
	defer conn.Close()
	return exchange(conn, bufio.NewReader(conn), q, hostOfTarget(q.Target))
}

// Tunnel is an established CONNECT + TLS tunnel through the proxy.
type Tunnel struct {
	raw    net.Conn
	tls    *tls.Conn
	br     *bufio.Reader
	Target string // host:port of the CONNECT
	Leaf   *x509.Certificate
}

// OpenTunnel performs CONNECT target, then a TLS handshake verifying against pool for serverName.
func OpenTunnel(proxyAddr, target, serverName string, pool *x509.CertPool) (*Tunnel, error) {
	pt, err := ConnectOnly(proxyAddr, target)
	if err != nil {
		return nil, err
	}
	return pt.Handshake(serverName, pool)
}

// PendingTunnel is a CONNECT that has been answered 200 but whose TLS handshake has not started yet.
type PendingTunnel struct {
	conn   net.Conn
	Target string
}

// ConnectOnly sends CONNECT target and waits for the 200; the client's TLS handshake is left to Handshake, so
// that other tunnels can be set up in between.
func ConnectOnly(proxyAddr, target string) (*PendingTunnel, error) {
	conn, err := net.DialTimeout("tcp", proxyAddr, 10*time.Second)
	if err != nil {
		return nil, fmt.Errorf("dial proxy: %w", err)
	}
	conn.SetDeadline(time.Now().Add(30 * time.Second))
	fmt.Fprintf(conn, "CONNECT %s HTTP/1.1\r\nHost: %s\r\n\r\n", target, target)
	br := bufio.NewReader(conn)
	resp, err := http.ReadResponse(br, &http.Request{Method: "CONNECT"})
	if err != nil {
		conn.Close()
		return nil, fmt.Errorf("CONNECT response: %w", err)
	}
	if resp.StatusCode != 200 {
		conn.Close()
		return nil, &ConnectRefused{Status: resp.StatusCode}
	}
	if br.Buffered() > 0 {
		conn.Close()
		return nil, errors.New("unexpected bytes after CONNECT response")
	}
	return &PendingTunnel{conn: conn, Target: target}, nil
}

func (p *PendingTunnel) Close() { p.conn.Close() }

// HandshakeAs completes the TLS handshake with an arbitrary SNI (empty = none) without verification and returns
// the leaf the proxy presented, for the caller to judge.
func (p *PendingTunnel) HandshakeAs(sni string) (*x509.Certificate, error) {
	conn := p.conn
	defer conn.Close()
	conn.SetDeadline(time.Now().Add(30 * time.Second))
	tc := tls.Client(conn, &tls.Config{ServerName: sni, InsecureSkipVerify: true})
	if err := tc.Handshake(); err != nil {
		return nil, fmt.Errorf("tls handshake: %w", err)
	}
	cs := tc.ConnectionState()
	if len(cs.PeerCertificates) == 0 {
		return nil, errors.New("no certificate presented")
	}
	return cs.PeerCertificates[0], nil
}

func (p *PendingTunnel) Handshake(serverName string, pool *x509.CertPool) (*Tunnel, error) {
	conn := p.conn
	conn.SetDeadline(time.Now().Add(30 * time.Second))
	tc := tls.Client(conn, &tls.Config{RootCAs: pool, ServerName: serverName})
	if err := tc.Handshake(); err != nil {
		conn.Close()
		return nil, fmt.Errorf("tls handshake: %w", err)
	}
	t := &Tunnel{raw: conn, tls: tc, br: bufio.NewReader(tc), Target: p.Target}
	if cs := tc.ConnectionState(); len(cs.PeerCertificates) > 0 {
		t.Leaf = cs.PeerCertificates[0]
	}
	conn.SetDeadline(time.Time{})
	return t, nil
}

type ConnectRefused struct{ Status int }

func (c *ConnectRefused) Error() string {
	return fmt.Sprintf("CONNECT refused with status %d", c.Status)
}

// Do sends one request (origin-form target) on the tunnel.
func (t *Tunnel) Do(q Req) *Resp {
	return exchange(t.tls, t.br, q, t.Target)
}

func (t *Tunnel) Close() { t.tls.Close() }

// Pipeline writes all requests with one Write (HTTP/1.1 pipelining: the later requests are on the wire before the
// earlier ones are answered) and then reads the responses in order. After the first failure the rest carry the
// same error.
func (t *Tunnel) Pipeline(qs []Req) []*Resp {
	out := make([]*Resp, len(qs))
	var wire bytes.Buffer
	methods := make([]string, len(qs))
	for i, q := range qs {
		wire.Write(composeRequest(q, t.Target))
		methods[i] = q.Method
		if methods[i] == "" {
			methods[i] = "GET"
		}
	}
	t.tls.SetDeadline(time.Now().Add(8 * time.Second))
	call := Now()
	_, werr := t.tls.Write(wire.Bytes())
	var failed error
	if werr != nil {
		failed = fmt.Errorf("write: %w", werr)
	}
	for i := range qs {
		r := &Resp{Call: call}
		out[i] = r
		if failed != nil {
			r.Err, r.Ret = failed, Now()
			continue
		}
		resp, err := http.ReadResponse(t.br, &http.Request{Method: methods[i]})
		r.HeaderAt = Now()
		if err != nil {
			failed = fmt.Errorf("read response %d of the pipeline: %w", i, err)
			r.Err, r.Ret = failed, Now()
			continue
		}
		r.Status, r.Proto, r.Header, r.ContentLen = resp.StatusCode, resp.Proto, resp.Header, resp.ContentLength
		for _, te := range resp.TransferEncoding {
			if te == "chunked" {
				r.Chunked = true
			}
		}
		body, err := io.ReadAll(resp.Body)
		r.Body = body
		if err != nil {
			failed = fmt.Errorf("read body %d of the pipeline after %d bytes: %w", i, len(body), err)
			r.Err = failed
		}
		r.Ret = Now()
	}
	return out
}

// Mode names a transport.
type Mode string

const (
	Plain Mode = "plain"
	Tunnl Mode = "tunnel" // one tunnel per request
)

// Do sends a GET-like request for origin path on the given transport (fresh connection/tunnel).
func Do(p *ProxyRig, mode Mode, originAddr string, q Req) *Resp {
	switch mode {
	case Plain:
		if !strings.HasPrefix(q.Target, "http://") {
			q.Target = "http://" + originAddr + q.Target
		}
		return PlainDo(p.Addr, q)
	default:
		host, _, _ := net.SplitHostPort(originAddr)
		t, err := OpenTunnel(p.Addr, originAddr, host, p.CA.Pool)
		if err != nil {
			return &Resp{Err: err, Call: Now(), Ret: Now()}
		}
		defer t.Close()
		return t.Do(q)
	}
}
