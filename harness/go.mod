module verifharness

go 1.26

require (
	github.com/anishathalye/porcupine v1.3.0
	golang.org/x/crypto v0.48.0
	reservoir v0.0.0
)

require (
	github.com/DeRuina/timberjack v1.3.9 // indirect
	github.com/dustin/go-humanize v1.0.1 // indirect
	github.com/google/uuid v1.6.0 // indirect
	github.com/jmoiron/sqlx v1.4.0 // indirect
	github.com/klauspost/compress v1.18.4 // indirect
	github.com/remyoudompheng/bigfft v0.0.0-20230129092748-24d4a6f8daec // indirect
	github.com/shirou/gopsutil/v4 v4.26.1 // indirect
	golang.org/x/exp v0.0.0-20260212183809-81e46e3db34a // indirect
	golang.org/x/sync v0.19.0 // indirect
	golang.org/x/sys v0.41.0 // indirect
	modernc.org/libc v1.67.7 // indirect
	modernc.org/mathutil v1.7.1 // indirect
	modernc.org/memory v1.11.0 // indirect
	modernc.org/sqlite v1.45.0 // indirect
)

replace reservoir => /repo
