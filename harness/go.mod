module verifharness

go 1.26

require (
	github.com/anishathalye/porcupine v1.3.0
	reservoir v0.0.0
)

require (
	github.com/DeRuina/timberjack v1.3.9 // indirect
	github.com/klauspost/compress v1.18.4 // indirect
	github.com/shirou/gopsutil/v4 v4.26.1 // indirect
	golang.org/x/crypto v0.48.0 // indirect
	golang.org/x/sync v0.19.0 // indirect
	golang.org/x/sys v0.41.0 // indirect
)

replace reservoir => /repo
