package core

import (
	"bufio"
	"encoding/json"
	"fmt"
	"os"
	"os/exec"
	"path/filepath"
	"regexp"
	"sort"
	"strings"
	"sync"
	"syscall"
	"time"
)

// BatchResult is what the driver knows about one child after it ended.
type BatchResult struct {
	Batch      Batch
	Report     *Report // nil when the child died before finishing
	ExitErr    string
	TimedOut   bool
	Stderr     string // tail
	LastCase   string
	RaceBlocks []RaceReport
	Dir        string
	WallS      float64
}

// DriveEnv locates the binaries built by bin/check.
type DriveEnv struct {
	Bin, RaceBin string
	ScratchRoot  string
	VerifDir     string
}

func tail(path string, n int) string {
	b, err := os.ReadFile(path)
	if err != nil {
		return ""
	}
	if len(b) > n {
		b = b[len(b)-n:]
	}
	return string(b)
}

func lastLine(path string) string {
	f, err := os.Open(path)
	if err != nil {
		return ""
	}
	defer f.Close()
	st, _ := f.Stat()
	off := st.Size() - 8192
	if off < 0 {
		off = 0
	}
	buf := make([]byte, st.Size()-off)
	f.ReadAt(buf, off)
	lines := strings.Split(strings.TrimRight(string(buf), "\n"), "\n")
	if len(lines) == 0 {
		return ""
	}
	return lines[len(lines)-1]
}

// RunBatch executes one batch in a child process with its own scratch cwd.
func RunBatch(env DriveEnv, b Batch, idx int) BatchResult {
	res := BatchResult{Batch: b}
	dir := filepath.Join(env.ScratchRoot, fmt.Sprintf("b%03d-%s", idx, sanitize(b.Name)))
	os.MkdirAll(dir, 0o755)
	res.Dir = dir
	bj, _ := json.Marshal(b)
	os.WriteFile(filepath.Join(dir, "batch.json"), bj, 0o644)

	bin := env.Bin
	if b.Race {
		bin = env.RaceBin
	}
	timeout := b.TimeoutS
	if timeout <= 0 {
		timeout = 600
	}
	if w := os.Getenv("VERIF_WRAP"); w != "" && len(b.Wrap) == 0 {
		// exploration aid: run every child under a wrapper, e.g.
		// VERIF_WRAP="strace -f -qq -o /dev/null -e trace=write -e inject=write:delay_exit=2000"
		b.Wrap = strings.Fields(w)
	}
	argv := append(append([]string{}, b.Wrap...), bin, "child", "batch.json", "report.json")
	cmd := exec.Command(argv[0], argv[1:]...)
	cmd.Dir = dir
	cmd.Env = childEnv(b, dir)
	so, _ := os.Create(filepath.Join(dir, "stdout.txt"))
	se, _ := os.Create(filepath.Join(dir, "stderr.txt"))
	cmd.Stdout, cmd.Stderr = so, se
	cmd.SysProcAttr = &syscall.SysProcAttr{Setpgid: true}
	start := time.Now()
	if err := cmd.Start(); err != nil {
		res.ExitErr = "start: " + err.Error()
		return res
	}
	done := make(chan error, 1)
	go func() { done <- cmd.Wait() }()
	select {
	case err := <-done:
		if err != nil {
			res.ExitErr = err.Error()
		}
	case <-time.After(time.Duration(timeout) * time.Second):
		res.TimedOut = true
		cmd.Process.Signal(syscall.SIGQUIT) // goroutine dump to stderr
		select {
		case <-done:
		case <-time.After(20 * time.Second):
			syscall.Kill(-cmd.Process.Pid, syscall.SIGKILL)
			<-done
		}
		res.ExitErr = "watchdog"
	}
	// make sure nothing of the child's process group lingers
	syscall.Kill(-cmd.Process.Pid, syscall.SIGKILL)
	so.Close()
	se.Close()
	res.WallS = time.Since(start).Seconds()

	if rb, err := os.ReadFile(filepath.Join(dir, "report.json")); err == nil {
		var rep Report
		if json.Unmarshal(rb, &rep) == nil && rep.Done {
			res.Report = &rep
		}
	}
	stderrMax := 64 << 10
	if res.TimedOut {
		stderrMax = 4 << 20
	}
	res.Stderr = tail(filepath.Join(dir, "stderr.txt"), stderrMax)
	res.LastCase = lastLine(filepath.Join(dir, "cases.log"))
	if b.Race {
		matches, _ := filepath.Glob(filepath.Join(dir, "race.*"))
		for _, m := range matches {
			if data, err := os.ReadFile(m); err == nil {
				res.RaceBlocks = append(res.RaceBlocks, ParseRaceLog(string(data))...)
			}
		}
	}
	return res
}

func sanitize(s string) string {
	return regexp.MustCompile(`[^A-Za-z0-9_.-]+`).ReplaceAllString(s, "_")
}

func childEnv(b Batch, dir string) []string {
	keep := []string{"PATH", "HOME", "TMPDIR", "GOMAXPROCS", "LANG", "VERIF_REPO_EFFECTIVE", "GOCACHE", "GOMODCACHE", "GOPATH"}
	var env []string
	for _, k := range keep {
		if v, ok := os.LookupEnv(k); ok {
			env = append(env, k+"="+v)
		}
	}
	// never let the upstream client use an environment proxy
	env = append(env, "NO_PROXY=*", "no_proxy=*", "GOTRACEBACK=all")
	if b.Race {
		env = append(env, "GORACE=halt_on_error=0 log_path="+filepath.Join(dir, "race")+" history_size=2")
	}
	env = append(env, b.Env...)
	return env
}

// RunBatches runs batches with bounded parallelism, preserving order in the result.
func RunBatches(env DriveEnv, batches []Batch, parallel int) []BatchResult {
	if parallel < 1 {
		parallel = 1
	}
	out := make([]BatchResult, len(batches))
	sem := make(chan struct{}, parallel)
	var wg sync.WaitGroup
	for i, b := range batches {
		wg.Add(1)
		sem <- struct{}{}
		go func() {
			defer wg.Done()
			defer func() { <-sem }()
			out[i] = RunBatch(env, b, i)
		}()
	}
	wg.Wait()
	return out
}

var (
	rePanicLine = regexp.MustCompile(`(?m)^(panic: .*|fatal error: .*|http: panic serving [^:]*:[0-9]*: .*)$`)
)

// ClassifyAbort extracts (kind, innermost reservoir frame) from a crashed child's stderr.
func ClassifyAbort(stderr string) (kind, frame string) {
	loc := rePanicLine.FindStringIndex(stderr)
	if loc == nil {
		return "", ""
	}
	kind = strings.TrimSpace(stderr[loc[0]:loc[1]])
	rest := stderr[loc[1]:]
	// the panicking goroutine's stack is the first goroutine block after the message
	if i := strings.Index(rest, "goroutine "); i >= 0 {
		rest = rest[i:]
		if j := strings.Index(rest, "\n\ngoroutine "); j >= 0 {
			rest = rest[:j]
		}
	}
	frame = FirstReservoirFrame(rest)
	return kind, frame
}

// FirstReservoirFrame returns the first function of package reservoir/... in a Go stack text.
func FirstReservoirFrame(stack string) string {
	for _, line := range strings.Split(stack, "\n") {
		l := strings.TrimSpace(line)
		if strings.HasPrefix(l, "reservoir/") || strings.HasPrefix(l, "reservoir.") {
			if i := strings.LastIndex(l, "("); i > 0 {
				l = l[:i]
			}
			return NormFunc(l)
		}
	}
	return ""
}

var (
	reShape   = regexp.MustCompile(`\[[^\]]*\]`)
	reClosure = regexp.MustCompile(`\.func[0-9]+(\.[0-9]+)*|\.gowrap[0-9]+|-range[0-9]+`)
)

// NormFunc strips generic instantiation noise and closure numbering from a function name.
func NormFunc(f string) string {
	f = reShape.ReplaceAllString(f, "")
	f = reClosure.ReplaceAllString(f, "")
	f = strings.ReplaceAll(f, "(*", "")
	f = strings.ReplaceAll(f, ")", "")
	f = strings.ReplaceAll(f, "(", "")
	f = strings.TrimSuffix(f, ".")
	return f
}

// BlockedReservoirFrames scans a SIGQUIT goroutine dump for goroutines that are blocked
// in a lock / channel operation with a reservoir frame on their stack.
func BlockedReservoirFrames(dump string) []string {
	var out []string
	seen := map[string]bool{}
	for _, g := range strings.Split(dump, "\n\ngoroutine ") {
		first, rest, _ := strings.Cut(g, "\n")
		blocked := false
		for _, st := range []string{"semacquire", "sync.Mutex.Lock", "sync.RWMutex", "chan send", "chan receive", "select", "sync.WaitGroup.Wait", "sync.Cond.Wait"} {
			if strings.Contains(first, st) {
				blocked = true
			}
		}
		if !blocked {
			continue
		}
		fr := FirstReservoirFrame(rest)
		if fr == "" {
			continue
		}
		// minutes blocked, e.g. "[semacquire, 2 minutes]" — or any blocked state at watchdog time
		key := fr + " [" + strings.Trim(first[strings.Index(first, "[")+1:], "]:") + "]"
		key = regexp.MustCompile(`, [0-9]+ minutes?`).ReplaceAllString(key, "")
		if !seen[key] {
			seen[key] = true
			out = append(out, key)
		}
	}
	sort.Strings(out)
	return out
}

// ReadLines reads a text file into lines.
func ReadLines(path string) []string {
	f, err := os.Open(path)
	if err != nil {
		return nil
	}
	defer f.Close()
	var out []string
	sc := bufio.NewScanner(f)
	sc.Buffer(make([]byte, 1<<20), 1<<26)
	for sc.Scan() {
		out = append(out, sc.Text())
	}
	return out
}
