package core

import (
	"encoding/json"
	"fmt"
	"os"
	"path/filepath"
	"sort"
	"strconv"
	"strings"
	"time"
)

// KnownFindings is the committed list of genuine defects recorded instead of repaired,
// and of repaired ones (which suppress nothing).
type KnownFindings struct {
	Open []struct {
		Property  string `json:"property"`
		Signature string `json:"signature"`
		What      string `json:"what"`
	} `json:"open"`
	Fixed []string `json:"fixed"` // "fixed: property=<id> <commit> <what failed>"
}

func LoadKnown(path string) KnownFindings {
	var k KnownFindings
	b, err := os.ReadFile(path)
	if err != nil {
		return k
	}
	json.Unmarshal(b, &k)
	return k
}

func (k KnownFindings) Lookup(prop, sig string) (string, bool) {
	for _, o := range k.Open {
		if o.Property == prop && o.Signature == sig {
			return o.What, true
		}
	}
	return "", false
}

// Outcome of a drive.
type Outcome struct {
	ExitCode int
}

// Drive runs all batches of a monitor, merges the reports, writes evidence and prints the verdict.
func Drive(env DriveEnv, m *Monitor, tier string, seed int64, replay string) int {
	start := time.Now()
	var batches []Batch
	if replay != "" {
		rb, err := os.ReadFile(replay)
		if err != nil {
			fmt.Printf("INCONCLUSIVE: cannot read replay file %s: %v\n", replay, err)
			return 2
		}
		var rp struct {
			Batch Batch  `json:"batch"`
			Case  string `json:"case_id"`
		}
		if err := json.Unmarshal(rb, &rp); err != nil {
			fmt.Printf("INCONCLUSIVE: bad replay file: %v\n", err)
			return 2
		}
		rp.Batch.OnlyCase = rp.Case
		batches = []Batch{rp.Batch}
	} else {
		batches = m.Plan(tier, seed)
	}
	for i := range batches {
		if batches[i].Monitor == "" {
			batches[i].Monitor = m.ID
		}
		batches[i].Tier = tier
		batches[i].Seed = seed
	}
	results := RunBatches(env, batches, m.Parallel)

	known := LoadKnown(filepath.Join(env.VerifDir, "known_findings.json"))
	ev := map[string]any{}
	counters := map[string]int64{}
	notJudged := map[string]int64{}
	sigCounts := map[string]int64{}
	var samples []any
	var evals, nontrivial int64
	var inconclusive []string
	type vrec struct {
		v     Violation
		batch Batch
	}
	firstBySig := map[string]vrec{}
	var sigOrder []string
	addViolation := func(v Violation, b Batch, n int64) {
		sigCounts[v.Signature] += n
		if _, ok := firstBySig[v.Signature]; !ok {
			firstBySig[v.Signature] = vrec{v, b}
			sigOrder = append(sigOrder, v.Signature)
		}
	}
	batchInfo := []map[string]any{}
	raceTotal, raceJudgeable, raceHarness := 0, 0, 0
	racePairs := map[string]int{}

	for _, r := range results {
		bi := map[string]any{"name": r.Batch.Name, "monitor": r.Batch.Monitor, "race_build": r.Batch.Race, "wall_s": round1(r.WallS)}
		own := r.Batch.Monitor == m.ID
		if r.Report != nil {
			rep := r.Report
			if own {
				evals += rep.Evaluations
				nontrivial += rep.Nontrivial
				for _, s := range rep.Samples {
					if len(samples) < 8 {
						samples = append(samples, s)
					}
				}
				for k, v := range rep.NotJudged {
					notJudged[k] += v
				}
				for _, s := range rep.Inconclusive {
					inconclusive = append(inconclusive, r.Batch.Name+": "+s)
				}
				for _, v := range rep.Violations {
					addViolation(v, r.Batch, 0)
				}
				for s, n := range rep.SigCounts {
					sigCounts[s] += n
				}
			} else {
				// a borrowed workload (C15): its counters show what was exercised under the detector
				evals += rep.Evaluations
				nontrivial += rep.Nontrivial
				if len(samples) < 8 && len(rep.Samples) > 0 {
					samples = append(samples, map[string]any{"workload": r.Batch.Name, "sample": rep.Samples[0]})
				}
			}
			for k, v := range rep.Counters {
				if own {
					counters[k] += v
				} else {
					counters[r.Batch.Monitor+"."+k] += v
				}
			}
			bi["evaluations"] = rep.Evaluations
		} else if r.TimedOut {
			blocked := BlockedReservoirFrames(r.Stderr)
			bi["watchdog"] = true
			bi["blocked_reservoir_frames"] = blocked
			if (m.ID == "C14" || m.ID == "C09") && len(blocked) > 0 {
				// C14: bounded progress is the property. C09: "never turn it into ... a hang": a child that had to be
				// killed with goroutines parked inside reservoir is such a hang (its batch deadline is short).
				sig := m.ID + ":stall:" + strings.Join(blocked, ";")
				addViolation(Violation{Property: m.ID, Signature: Trunc(sig, 300), What: "no progress until the watchdog fired; goroutines blocked inside reservoir",
					Case: json.RawMessage(orNull(r.LastCase)), Witness: map[string]any{"blocked": blocked, "dump_tail": Trunc(r.Stderr, 20000)}, Batch: r.Batch.Name}, r.Batch, 1)
			} else {
				inconclusive = append(inconclusive, fmt.Sprintf("%s: watchdog fired after %ds (blocked reservoir frames: %v)", r.Batch.Name, r.Batch.TimeoutS, blocked))
			}
		} else {
			kind, frame := ClassifyAbort(r.Stderr)
			bi["aborted"] = kind
			if kind != "" {
				sig := fmt.Sprintf("%s:process-abort:%s:%s", m.ID, frame, abortKind(kind))
				addViolation(Violation{Property: m.ID, Signature: sig, What: "child process aborted: " + Trunc(kind, 200),
					Case: json.RawMessage(orNull(r.LastCase)), Witness: map[string]any{"stderr_tail": Trunc(r.Stderr, 8000)}, Batch: r.Batch.Name}, r.Batch, 1)
			} else {
				inconclusive = append(inconclusive, fmt.Sprintf("%s: child ended without report (%s): %s", r.Batch.Name, r.ExitErr, Trunc(r.Stderr, 600)))
			}
		}
		if r.Batch.Race {
			for _, rr := range r.RaceBlocks {
				raceTotal++
				if rr.Judgeable {
					raceJudgeable++
					racePairs[rr.Signature]++
					if m.ID == "C15" {
						addViolation(Violation{Property: "C15", Signature: "C15:race:" + rr.Signature, What: "data race between " + rr.A + " and " + rr.B,
							Case: map[string]any{"workload": r.Batch.Monitor + "/" + r.Batch.Name}, Witness: rr.Raw, Batch: r.Batch.Name}, r.Batch, 1)
					}
				} else {
					raceHarness++
				}
			}
			// concurrent-map faults abort the runtime: they are C15's business too
			if m.ID == "C15" && r.Report == nil && strings.Contains(r.Stderr, "fatal error: concurrent map") {
				_, frame := ClassifyAbort(r.Stderr)
				addViolation(Violation{Property: "C15", Signature: "C15:concurrent-map-fault:" + frame, What: "runtime aborted with a concurrent map fault",
					Case: json.RawMessage(orNull(r.LastCase)), Witness: Trunc(r.Stderr, 8000), Batch: r.Batch.Name}, r.Batch, 1)
			}
		}
		batchInfo = append(batchInfo, bi)
	}

	// coverage floors
	if replay == "" {
		for name, floor := range m.Floors[tier] {
			if counters[name] < floor {
				inconclusive = append(inconclusive, fmt.Sprintf("coverage floor not met: %s=%d < %d", name, counters[name], floor))
			}
		}
	}

	// verdict
	exit := 0
	os.MkdirAll(filepath.Join(env.VerifDir, "replays"), 0o755)
	knownSeen := []string{}
	newViol := 0
	sort.Strings(sigOrder)
	for _, sig := range sigOrder {
		vr := firstBySig[sig]
		if what, ok := known.Lookup(vr.v.Property, sig); ok {
			fmt.Printf("KNOWN-FINDING: property=%s %s [%s] (observed %d×)\n", vr.v.Property, what, sig, sigCounts[sig])
			knownSeen = append(knownSeen, sig)
			continue
		}
		newViol++
		caseID := ""
		if cm, ok := vr.v.Case.(map[string]any); ok {
			if id, ok := cm["id"].(string); ok {
				caseID = id
			}
		}
		rp := map[string]any{"property": vr.v.Property, "signature": sig, "what": vr.v.What, "batch": vr.batch, "case_id": caseID,
			"case": vr.v.Case, "witness": vr.v.Witness, "observed": sigCounts[sig], "seed": seed, "tier": tier}
		path := filepath.Join(env.VerifDir, "replays", fmt.Sprintf("%s-%016x-s%d.json", m.ID, Hash64(sig), seed))
		b, _ := json.MarshalIndent(rp, "", " ")
		os.WriteFile(path, b, 0o644)
		fmt.Printf("VIOLATION property=%s replay=%s\n", vr.v.Property, path)
		fmt.Printf("  signature: %s\n  what: %s (observed %d×)\n", sig, vr.v.What, sigCounts[sig])
		exit = 1
	}
	if exit == 0 && len(inconclusive) > 0 {
		for _, s := range inconclusive {
			fmt.Printf("INCONCLUSIVE: property=%s %s\n", m.ID, s)
		}
		exit = 2
	}

	// evidence
	cov := map[string]any{
		"evaluations":         evals,
		"distinct_nontrivial": nontrivial,
		"rule":                m.Rule,
		"samples":             samples,
		"counters":            counters,
		"not_judged":          notJudged,
		"batches":             batchInfo,
		"signatures_observed": sigCounts,
		"known_findings_seen": knownSeen,
		"inconclusive":        inconclusive,
	}
	if raceTotal > 0 || m.ID == "C15" {
		cov["race_reports_total"] = raceTotal
		cov["race_reports_in_reservoir"] = raceJudgeable
		cov["race_reports_harness_side"] = raceHarness
		cov["race_distinct_pairs"] = racePairs
	}
	if len(samples) == 0 {
		cov["samples"] = []any{"(no sample recorded)"}
	}
	ev["property_id"] = m.ID
	ev["tier"] = tier
	ev["seed"] = seed
	ev["level"] = m.Level
	ev["coverage"] = cov
	ev["assumptions"] = m.Assumptions
	ev["wall_s"] = round1(time.Since(start).Seconds())
	ev["violations"] = newViol
	if replay == "" {
		os.MkdirAll(filepath.Join(env.VerifDir, "evidence"), 0o755)
		b, _ := json.MarshalIndent(ev, "", " ")
		os.WriteFile(filepath.Join(env.VerifDir, "evidence", m.ID+".json"), b, 0o644)
	}
	fmt.Printf("%s %s seed=%d: evaluations=%d distinct_nontrivial=%d violations(new)=%d known=%d inconclusive=%d wall=%.1fs\n",
		m.ID, tier, seed, evals, nontrivial, newViol, len(knownSeen), len(inconclusive), time.Since(start).Seconds())
	return exit
}

func round1(f float64) float64 {
	v, _ := strconv.ParseFloat(fmt.Sprintf("%.1f", f), 64)
	return v
}

func orNull(s string) string {
	if strings.TrimSpace(s) == "" || !json.Valid([]byte(s)) {
		return "null"
	}
	return s
}

func abortKind(kind string) string {
	k := kind
	for _, p := range []string{"index out of range", "slice bounds out of range", "nil pointer dereference", "concurrent map", "integer divide by zero", "non-positive interval", "makeslice", "all goroutines are asleep", "close of closed channel", "send on closed channel", "stack overflow", "out of memory"} {
		if strings.Contains(k, p) {
			return strings.ReplaceAll(p, " ", "-")
		}
	}
	return Trunc(sanitize(k), 60)
}
