package core

import (
	"sort"
	"strings"
)

// RaceReport is one "WARNING: DATA RACE" block, reduced to the innermost reservoir
// (or harness) frame of each of the two conflicting accesses.
type RaceReport struct {
	A, B       string // normalised innermost reservoir function + file of each access ("" = none)
	HarnessA   bool   // innermost non-runtime frame of the access is harness code
	HarnessB   bool
	Raw        string
	Signature  string
	Judgeable  bool // both accesses are inside reservoir code
	AccessKind string
}

type stackInfo struct {
	innermostUser string // first frame that is not runtime/stdlib
	innermostRes  string // first reservoir frame
	harnessFirst  bool
	callback      bool
}

func classifyStack(lines []string) stackInfo {
	var si stackInfo
	for i := 0; i+1 < len(lines); i += 2 {
		fn := strings.TrimSpace(lines[i])
		loc := strings.TrimSpace(lines[i+1])
		if fn == "" {
			break
		}
		if j := strings.LastIndex(fn, "("); j > 0 {
			fn = fn[:j]
		}
		isRes := strings.HasPrefix(fn, "reservoir/") || strings.HasPrefix(fn, "reservoir.")
		isHarness := strings.HasPrefix(fn, "verifharness/") || strings.HasPrefix(fn, "main.")
		if si.innermostUser == "" && (isRes || isHarness) {
			si.innermostUser = fn
			si.harnessFirst = isHarness
		}
		if isRes && si.harnessFirst && si.innermostRes == "" {
			// harness code running as a callback that reservoir invoked (e.g. the modifier passed to
			// UpdateMetadata): the access is made on reservoir's behalf and under reservoir's locking
			// discipline, so it is attributed to the calling reservoir frame and judged
			si.harnessFirst = false
			si.callback = true
		}
		if isRes && si.innermostRes == "" {
			file := loc
			if k := strings.LastIndex(file, ":"); k > 0 {
				file = file[:k]
			}
			if k := strings.LastIndex(file, "/"); k >= 0 {
				file = file[k+1:]
			}
			si.innermostRes = NormFunc(fn) + "@" + file
			if si.callback {
				si.innermostRes += "(callback)"
			}
		}
	}
	return si
}

// ParseRaceLog splits a GORACE log into reports.
func ParseRaceLog(log string) []RaceReport {
	var out []RaceReport
	blocks := strings.Split(log, "WARNING: DATA RACE")
	for _, blk := range blocks[1:] {
		if i := strings.Index(blk, "=================="); i >= 0 {
			blk = blk[:i]
		}
		// sections are separated by blank lines; the first two are the accesses
		secs := strings.Split(strings.TrimSpace(blk), "\n\n")
		var acc []stackInfo
		kind := ""
		for _, s := range secs {
			ls := strings.Split(s, "\n")
			if len(ls) < 2 {
				continue
			}
			head := strings.TrimSpace(ls[0])
			if strings.HasPrefix(head, "Read at") || strings.HasPrefix(head, "Write at") ||
				strings.HasPrefix(head, "Previous read at") || strings.HasPrefix(head, "Previous write at") ||
				strings.HasPrefix(head, "Atomic") || strings.HasPrefix(head, "Previous atomic") {
				acc = append(acc, classifyStack(ls[1:]))
				kind += strings.Fields(head)[0] + "/"
			}
		}
		if len(acc) < 2 {
			continue
		}
		r := RaceReport{Raw: Trunc(strings.TrimSpace(blk), 6000), AccessKind: kind}
		r.A, r.B = acc[0].innermostRes, acc[1].innermostRes
		r.HarnessA, r.HarnessB = acc[0].harnessFirst, acc[1].harnessFirst
		r.Judgeable = !r.HarnessA && !r.HarnessB && r.A != "" && r.B != ""
		pair := []string{r.A, r.B}
		sort.Strings(pair)
		r.Signature = pair[0] + "|" + pair[1]
		out = append(out, r)
	}
	return out
}
