// Package core holds the plumbing shared by every monitor: the recorder a child
// process writes its observations to, the batch/monitor descriptions, and small
// deterministic helpers. Nothing in here knows about reservoir.
package core

import (
	"encoding/json"
	"fmt"
	"hash/fnv"
	"math/rand/v2"
	"os"
	"sort"
	"sync"
	"time"
)

// Violation is one observed refutation of a property.
type Violation struct {
	Property  string `json:"property"`
	Signature string `json:"signature"` // stable identity of the failing input class / call site / history shape
	What      string `json:"what"`      // one line for humans
	Case      any    `json:"case,omitempty"`
	Witness   any    `json:"witness,omitempty"`
	Batch     string `json:"batch,omitempty"`
}

// Batch is one child-process run of a monitor.
type Batch struct {
	Monitor  string         `json:"monitor"` // which monitor's Run executes it
	Name     string         `json:"name"`
	Tier     string         `json:"tier"`
	Seed     int64          `json:"seed"`
	Args     map[string]any `json:"args,omitempty"`
	Race     bool           `json:"race,omitempty"`      // run on the -race binary
	TimeoutS int            `json:"timeout_s,omitempty"` // watchdog (generous); firing = inconclusive unless a dump shows blocked reservoir frames
	Env      []string       `json:"env,omitempty"`
	Wrap     []string       `json:"wrap,omitempty"`      // run the child under this command (e.g. strace as a delay injector)
	OnlyCase string         `json:"only_case,omitempty"` // replay filter
}

func (b Batch) Int(key string, def int) int {
	if v, ok := b.Args[key]; ok {
		switch x := v.(type) {
		case float64:
			return int(x)
		case int:
			return x
		case int64:
			return int(x)
		}
	}
	return def
}

func (b Batch) Str(key, def string) string {
	if v, ok := b.Args[key]; ok {
		if s, ok := v.(string); ok {
			return s
		}
	}
	return def
}

func (b Batch) Bool(key string, def bool) bool {
	if v, ok := b.Args[key]; ok {
		if s, ok := v.(bool); ok {
			return s
		}
	}
	return def
}

// Rand returns the PRNG of a batch: a pure function of seed and batch name (+salt).
func (b Batch) Rand(salt string) *rand.Rand {
	h := fnv.New64a()
	fmt.Fprintf(h, "%s|%s|%s", b.Monitor, b.Name, salt)
	return rand.New(rand.NewPCG(uint64(b.Seed), h.Sum64()))
}

// Monitor describes one property's machinery.
type Monitor struct {
	ID          string
	Level       string // exploration | fault_enumeration
	Rule        string // how cases are generated and what makes one non-trivial
	Assumptions []string
	Plan        func(tier string, seed int64) []Batch
	Run         func(b Batch, r *Recorder)
	// Floors: counters that must reach at least this value (summed over batches of
	// this monitor) or the run is INCONCLUSIVE. Keyed by tier ("quick"/"thorough").
	Floors   map[string]map[string]int64
	Parallel int // batches run concurrently (default 1)
}

var registry = map[string]*Monitor{}

func Register(m *Monitor)       { registry[m.ID] = m }
func Lookup(id string) *Monitor { return registry[id] }
func IDs() []string {
	ids := make([]string, 0, len(registry))
	for id := range registry {
		ids = append(ids, id)
	}
	sort.Strings(ids)
	return ids
}

// Report is what a child writes when its batch is done.
type Report struct {
	Batch        string             `json:"batch"`
	Monitor      string             `json:"monitor"`
	Evaluations  int64              `json:"evaluations"`
	Nontrivial   int64              `json:"distinct_nontrivial"`
	Samples      []any              `json:"samples"`
	Counters     map[string]int64   `json:"counters"`
	NotJudged    map[string]int64   `json:"not_judged"`
	Violations   []Violation        `json:"violations"`
	SigCounts    map[string]int64   `json:"signature_counts"`
	Inconclusive []string           `json:"inconclusive"`
	Notes        map[string]any     `json:"notes,omitempty"`
	WallS        float64            `json:"wall_s"`
	Done         bool               `json:"done"`
	extra        map[string]float64 `json:"-"`
}

// Recorder is the thread-safe sink for a child's observations.
type Recorder struct {
	mu       sync.Mutex
	rep      Report
	seen     map[uint64]struct{}
	caseLog  *os.File
	only     string
	start    time.Time
	maxPerSg int
}

func NewRecorder(b Batch, caseLogPath string) *Recorder {
	r := &Recorder{seen: map[uint64]struct{}{}, only: b.OnlyCase, start: time.Now(), maxPerSg: 3}
	r.rep.Batch = b.Name
	r.rep.Monitor = b.Monitor
	r.rep.Counters = map[string]int64{}
	r.rep.NotJudged = map[string]int64{}
	r.rep.SigCounts = map[string]int64{}
	r.rep.Notes = map[string]any{}
	if caseLogPath != "" {
		f, err := os.OpenFile(caseLogPath, os.O_CREATE|os.O_WRONLY|os.O_APPEND, 0o644)
		if err == nil {
			r.caseLog = f
		}
	}
	return r
}

// Case logs a case description BEFORE it is executed, so that a process abort is
// attributable to an input. It returns false when a replay filter excludes the case.
func (r *Recorder) Case(id string, desc any) bool {
	if r.only != "" && r.only != id {
		return false
	}
	if r.caseLog != nil {
		b, _ := json.Marshal(map[string]any{"case": id, "desc": desc})
		r.mu.Lock()
		r.caseLog.Write(append(b, '\n'))
		r.mu.Unlock()
	}
	return true
}

// Only reports the replay filter ("" when none).
func (r *Recorder) Only() string { return r.only }

func (r *Recorder) Eval(n int64) {
	r.mu.Lock()
	r.rep.Evaluations += n
	r.mu.Unlock()
}

// Nontrivial counts a case as non-trivial; distinctness is by hash.
func (r *Recorder) Nontrivial(parts ...any) {
	h := Hash64(parts...)
	r.mu.Lock()
	if _, ok := r.seen[h]; !ok {
		r.seen[h] = struct{}{}
		r.rep.Nontrivial++
	}
	r.mu.Unlock()
}

func (r *Recorder) Sample(s any) {
	r.mu.Lock()
	if len(r.rep.Samples) < 6 {
		r.rep.Samples = append(r.rep.Samples, s)
	}
	r.mu.Unlock()
}

func (r *Recorder) Count(name string, n int64) {
	r.mu.Lock()
	r.rep.Counters[name] += n
	r.mu.Unlock()
}

func (r *Recorder) Max(name string, n int64) {
	r.mu.Lock()
	if n > r.rep.Counters[name] {
		r.rep.Counters[name] = n
	}
	r.mu.Unlock()
}

func (r *Recorder) NotJudged(reason string) {
	r.mu.Lock()
	r.rep.NotJudged[reason]++
	r.mu.Unlock()
}

func (r *Recorder) Note(key string, v any) {
	r.mu.Lock()
	r.rep.Notes[key] = v
	r.mu.Unlock()
}

func (r *Recorder) Inconclusive(why string) {
	r.mu.Lock()
	r.rep.Inconclusive = append(r.rep.Inconclusive, why)
	r.mu.Unlock()
}

// Violation records a refutation. Witnesses are kept for the first few per signature.
func (r *Recorder) Violation(prop, sig, what string, cs any, witness any) {
	r.mu.Lock()
	defer r.mu.Unlock()
	r.rep.SigCounts[sig]++
	if r.rep.SigCounts[sig] > int64(r.maxPerSg) {
		return
	}
	r.rep.Violations = append(r.rep.Violations, Violation{Property: prop, Signature: sig, What: what, Case: cs, Witness: witness, Batch: r.rep.Batch})
}

func (r *Recorder) Finish(path string) error {
	r.mu.Lock()
	defer r.mu.Unlock()
	r.rep.Done = true
	r.rep.WallS = time.Since(r.start).Seconds()
	b, err := json.Marshal(&r.rep)
	if err != nil {
		return err
	}
	tmp := path + ".tmp"
	if err := os.WriteFile(tmp, b, 0o644); err != nil {
		return err
	}
	return os.Rename(tmp, path)
}

// Hash64 hashes a case description.
func Hash64(parts ...any) uint64 {
	h := fnv.New64a()
	for _, p := range parts {
		switch x := p.(type) {
		case string:
			h.Write([]byte(x))
		case []byte:
			h.Write(x)
		default:
			fmt.Fprintf(h, "%v", x)
		}
		h.Write([]byte{0})
	}
	return h.Sum64()
}

// Trunc shortens a string for signatures/samples.
func Trunc(s string, n int) string {
	if len(s) <= n {
		return s
	}
	return s[:n] + fmt.Sprintf("…(+%d)", len(s)-n)
}

// Aux commands are extra process entry points (victims that get killed, servers, ...).
var auxRegistry = map[string]func(args []string){}

func RegisterAux(name string, f func(args []string)) { auxRegistry[name] = f }
func LookupAux(name string) func(args []string)      { return auxRegistry[name] }
