// verifmon is the single binary of the verification harness.
//
//	verifmon drive <Cnn> <quick|thorough> [--replay <file>]   driver: plans batches, spawns children, judges
//	verifmon child <batch.json> <report.json>                 one batch of one monitor (run in a scratch cwd)
//	verifmon list
package main

import (
	"encoding/json"
	"fmt"
	"os"
	"path/filepath"
	"strconv"

	"verifharness/core"
	_ "verifharness/mon"
)

func main() {
	if len(os.Args) < 2 {
		fmt.Fprintln(os.Stderr, "usage: verifmon drive|child|list ...")
		os.Exit(64)
	}
	switch os.Args[1] {
	case "list":
		for _, id := range core.IDs() {
			fmt.Println(id)
		}
	case "needs-race":
		// exit 0 when any batch of the monitor wants the -race binary
		if m := core.Lookup(os.Args[2]); m != nil {
			for _, tier := range []string{"quick", "thorough"} {
				for _, b := range m.Plan(tier, 1) {
					if b.Race {
						os.Exit(0)
					}
				}
			}
		}
		os.Exit(1)
	case "aux":
		f := core.LookupAux(os.Args[2])
		if f == nil {
			fmt.Fprintln(os.Stderr, "unknown aux", os.Args[2])
			os.Exit(64)
		}
		f(os.Args[3:])
	case "child":
		child(os.Args[2], os.Args[3])
	case "drive":
		os.Exit(drive(os.Args[2:]))
	default:
		fmt.Fprintln(os.Stderr, "unknown mode", os.Args[1])
		os.Exit(64)
	}
}

func child(batchPath, reportPath string) {
	bb, err := os.ReadFile(batchPath)
	if err != nil {
		fmt.Fprintln(os.Stderr, "child: read batch:", err)
		os.Exit(70)
	}
	var b core.Batch
	if err := json.Unmarshal(bb, &b); err != nil {
		fmt.Fprintln(os.Stderr, "child: parse batch:", err)
		os.Exit(70)
	}
	m := core.Lookup(b.Monitor)
	if m == nil {
		fmt.Fprintln(os.Stderr, "child: unknown monitor", b.Monitor)
		os.Exit(70)
	}
	rec := core.NewRecorder(b, "cases.log")
	m.Run(b, rec)
	if err := rec.Finish(reportPath); err != nil {
		fmt.Fprintln(os.Stderr, "child: write report:", err)
		os.Exit(70)
	}
}

func drive(args []string) int {
	if len(args) < 2 {
		fmt.Fprintln(os.Stderr, "usage: verifmon drive <Cnn> <quick|thorough> [--replay <file>]")
		return 64
	}
	id, tier := args[0], args[1]
	replay := ""
	for i := 2; i < len(args); i++ {
		if args[i] == "--replay" && i+1 < len(args) {
			replay = args[i+1]
			i++
		}
	}
	if tier != "quick" && tier != "thorough" {
		fmt.Fprintln(os.Stderr, "tier must be quick or thorough")
		return 64
	}
	m := core.Lookup(id)
	if m == nil {
		fmt.Fprintln(os.Stderr, "unknown property", id)
		return 64
	}
	seed := int64(1)
	if s := os.Getenv("VERIF_SEED"); s != "" {
		if v, err := strconv.ParseInt(s, 10, 64); err == nil {
			seed = v
		}
	}
	self, _ := os.Executable()
	env := core.DriveEnv{
		Bin:         envOr("VERIFMON_BIN", self),
		RaceBin:     envOr("VERIFMON_RACE_BIN", self),
		ScratchRoot: envOr("VERIFMON_SCRATCH", filepath.Join(os.TempDir(), fmt.Sprintf("verifmon-%d", os.Getpid()))),
		VerifDir:    envOr("VERIF_DIR", "/verif"),
	}
	os.MkdirAll(env.ScratchRoot, 0o755)
	if os.Getenv("VERIFMON_KEEP") == "" {
		defer os.RemoveAll(env.ScratchRoot)
	}
	return core.Drive(env, m, tier, seed, replay)
}

func envOr(k, def string) string {
	if v := os.Getenv(k); v != "" {
		return v
	}
	return def
}
