package mon

// C01 — served bodies are complete, unmixed origin bodies of the requested resource.
//
// Part 1 (this file): cache-level history monitor. Workers store uniquely versioned
// self-describing bodies, read them back in every reading style, delete and update
// metadata while the janitor runs; every read is checked byte for byte online, and the
// recorded history is checked per key against a register model with porcupine.
// Part 2 (c01_proxy.go): the same through the real proxy.

import (
	"context"
	"errors"
	"fmt"
	"io"
	"math/rand/v2"
	"os"
	"path/filepath"
	"runtime"
	"sort"
	"sync"
	"sync/atomic"
	"time"

	"github.com/anishathalye/porcupine"

	"reservoir/cache"
	"verifharness/core"
	"verifharness/rig"
)

type c01In struct {
	Kind string // put | putfail | get | del | upd
	Key  int
	V    int
}

type c01Out struct {
	Status string // ok | notfound | err
	V      int
}

type c01Ev struct {
	Client    int     `json:"client"`
	In        c01In   `json:"in"`
	Out       c01Out  `json:"out"`
	Call, Ret int64   `json:"-"`
	CallUs    float64 `json:"call_us"`
	RetUs     float64 `json:"ret_us"`
	ReadEnd   int64   `json:"-"`
	Style     string  `json:"style,omitempty"`
}

// c01Model: register per key; state = current version, 0 = absent.
func c01Model(evictionAllowed bool) porcupine.Model {
	nm := porcupine.NondeterministicModel{
		Partition: func(h []porcupine.Operation) [][]porcupine.Operation {
			m := map[int][]porcupine.Operation{}
			for _, o := range h {
				k := o.Input.(c01In).Key
				m[k] = append(m[k], o)
			}
			keys := make([]int, 0, len(m))
			for k := range m {
				keys = append(keys, k)
			}
			sort.Ints(keys)
			out := make([][]porcupine.Operation, 0, len(m))
			for _, k := range keys {
				out = append(out, m[k])
			}
			return out
		},
		Init: func() []any { return []any{0} },
		Step: func(st, in, out any) []any {
			s := st.(int)
			i := in.(c01In)
			o := out.(c01Out)
			switch i.Kind {
			case "put":
				if o.Status == "ok" {
					return []any{i.V}
				}
				// a store that reported an error may have left the key as it was or removed it,
				// but never made the new (partial) body visible
				return []any{s, 0}
			case "del":
				return []any{0}
			case "upd":
				if evictionAllowed {
					if o.Status == "notfound" {
						return []any{0}
					}
					return []any{s}
				}
				return []any{s}
			case "get":
				switch o.Status {
				case "notfound":
					if s == 0 {
						return []any{0}
					}
					if evictionAllowed {
						return []any{0} // evicted at some point before this get
					}
					return nil
				case "ok":
					if s == o.V && s != 0 {
						return []any{s}
					}
					return nil
				default: // lookup error: no information
					return []any{s}
				}
			}
			return []any{s}
		},
		DescribeOperation: func(in, out any) string {
			return fmt.Sprintf("%+v -> %+v", in, out)
		},
	}
	return nm.ToModel()
}

type c01World struct {
	c       rig.VCache
	backend string
	start   time.Time
	ver     atomic.Int64
	mu      sync.Mutex
	events  []c01Ev
	r       *core.Recorder
	variant string
	histID  string
	maxBody int
}

func (w *c01World) now() int64 { return int64(time.Since(w.start)) }

func (w *c01World) log(e c01Ev) {
	e.CallUs, e.RetUs = float64(e.Call)/1e3, float64(e.Ret)/1e3
	w.mu.Lock()
	w.events = append(w.events, e)
	w.mu.Unlock()
}

// readAll reads the entry's data in one of several styles and returns the bytes.
func c01ReadStyle(rng *rand.Rand, d cache.EntryData, size int64) ([]byte, string, error) {
	style := []string{"readall", "chunks", "chunks-yield", "pause-mid", "readat", "seek-back"}[rng.IntN(6)]
	switch style {
	case "readall":
		b, err := io.ReadAll(d)
		return b, style, err
	case "chunks", "chunks-yield", "pause-mid":
		var out []byte
		buf := make([]byte, 1+rng.IntN(700))
		paused := false
		for {
			n, err := d.Read(buf[:1+rng.IntN(len(buf))])
			out = append(out, buf[:n]...)
			if err == io.EOF {
				return out, style, nil
			}
			if err != nil {
				return out, style, err
			}
			if style == "chunks-yield" {
				runtime.Gosched()
			}
			if style == "pause-mid" && !paused && int64(len(out)) >= size/3 {
				paused = true
				time.Sleep(time.Duration(100+rng.IntN(1500)) * time.Microsecond)
			}
			if int64(len(out)) > size+1<<16 {
				return out, style, nil // runaway guard
			}
		}
	case "readat":
		// read the body as random-order pieces via ReadAt, assembled by offset
		out := make([]byte, size)
		type piece struct{ off, n int64 }
		var ps []piece
		for off := int64(0); off < size; {
			n := int64(1 + rng.IntN(600))
			if off+n > size {
				n = size - off
			}
			ps = append(ps, piece{off, n})
			off += n
		}
		rng.Shuffle(len(ps), func(i, j int) { ps[i], ps[j] = ps[j], ps[i] })
		got := int64(0)
		for _, p := range ps {
			n, err := d.ReadAt(out[p.off:p.off+p.n], p.off)
			got += int64(n)
			if err != nil && err != io.EOF {
				return out[:0], style, err
			}
			if int64(n) != p.n {
				// short piece: report what we have as truncated at that offset
				return out[:p.off+int64(n)], style, nil
			}
			runtime.Gosched()
		}
		// anything beyond size?
		extra := make([]byte, 16)
		if n, _ := d.ReadAt(extra, size); n > 0 {
			out = append(out, extra[:n]...)
		}
		return out, style, nil
	default: // seek-back: read a prefix, seek to start, read everything
		pre := make([]byte, 1+rng.IntN(64))
		io.ReadFull(d, pre)
		if _, err := d.Seek(0, io.SeekStart); err != nil {
			return nil, style, err
		}
		b, err := io.ReadAll(d)
		return b, style, err
	}
}

func (w *c01World) worker(id int, rng *rand.Rand, nOps, keys int, faults bool) {
	for i := 0; i < nOps; i++ {
		k := rng.IntN(keys)
		key := rig.Key(k)
		p := rng.IntN(100)
		switch {
		case p < 30: // put
			v := int(w.ver.Add(1))
			n := c01bodyLen(k, v, w.maxBody) // the length is a function of (key, version): a reader can tell a cut body
			body := rig.Body(k, v, n)
			var src io.Reader = &slowReader{data: body, rng: rng, chunk: 1 + rng.IntN(4096)}
			failing := false
			if faults && rng.IntN(6) == 0 {
				failing = true
				src = &failingReader{data: body, fail: rng.IntN(n + 1)}
			}
			ev := c01Ev{Client: id, In: c01In{"put", k, v}, Call: w.now()}
			ent, err := w.c.Cache(key, src, time.Now().Add(time.Hour), rig.Obj{K: k, V: v})
			ev.Ret = w.now()
			if err != nil {
				ev.Out = c01Out{Status: "err"}
				if failing {
					w.r.Count("failed_source_stores", 1)
				}
			} else {
				ev.Out = c01Out{Status: "ok", V: v}
				if ent != nil && ent.Data != nil {
					// the entry handed back by the store must itself be the complete new body
					data, _, rerr := c01ReadStyle(rng, ent.Data, ent.Metadata.Size)
					ent.Data.Close()
					w.checkRead(ev, k, data, rerr, ent.Metadata, "store-return")
				}
			}
			w.log(ev)
		case p < 80: // get + read
			ev := c01Ev{Client: id, In: c01In{"get", k, 0}, Call: w.now()}
			ent, err := w.c.Get(key)
			ev.Ret = w.now()
			switch {
			case errors.Is(err, cache.ErrCacheEntryNotFound):
				ev.Out = c01Out{Status: "notfound"}
			case err != nil:
				ev.Out = c01Out{Status: "err"}
				w.r.Count("get_errors", 1)
			default:
				meta := ent.Metadata
				size := meta.Size
				data, style, rerr := c01ReadStyle(rng, ent.Data, size)
				ent.Data.Close()
				ev.ReadEnd = w.now()
				ev.Style = style
				ev.Out = c01Out{Status: "ok", V: meta.Object.V}
				w.checkRead(ev, k, data, rerr, meta, style)
			}
			w.log(ev)
		case p < 90: // delete
			ev := c01Ev{Client: id, In: c01In{"del", k, 0}, Call: w.now()}
			err := w.c.Delete(key)
			ev.Ret = w.now()
			ev.Out = c01Out{Status: "ok"}
			if err != nil {
				ev.Out.Status = "notfound"
			}
			w.log(ev)
		default: // update metadata
			ev := c01Ev{Client: id, In: c01In{"upd", k, 0}, Call: w.now()}
			err := w.c.UpdateMetadata(key, func(m *cache.EntryMetadata[rig.Obj]) { m.Expires = time.Now().Add(time.Hour) })
			ev.Ret = w.now()
			ev.Out = c01Out{Status: "ok"}
			if err != nil {
				ev.Out.Status = "notfound"
			}
			w.log(ev)
		}
	}
}

func c01bodyLen(k, v, maxBody int) int { return 1 + (v*7919+k*104729)%maxBody }

type slowReader struct {
	data  []byte
	pos   int
	rng   *rand.Rand
	chunk int
}

func (s *slowReader) Read(p []byte) (int, error) {
	if s.pos >= len(s.data) {
		return 0, io.EOF
	}
	n := s.chunk
	if n > len(p) {
		n = len(p)
	}
	if n > len(s.data)-s.pos {
		n = len(s.data) - s.pos
	}
	copy(p, s.data[s.pos:s.pos+n])
	s.pos += n
	if s.rng.IntN(3) == 0 {
		runtime.Gosched()
	}
	return n, nil
}

// checkRead is the online oracle for one read of key k.
func (w *c01World) checkRead(ev c01Ev, k int, data []byte, rerr error, meta *cache.EntryMetadata[rig.Obj], style string) {
	w.r.Count("reads_checked", 1)
	size := int(meta.Size)
	obj := meta.Object
	bv := rig.CheckFull(data, size)
	bad := ""
	switch {
	case rerr != nil:
		bad = "read-error"
	case bv.Kind != "complete":
		bad = bv.Kind
	case len(data) > 0 && bv.R >= 0 && bv.R != k:
		bad = "foreign"
	case obj.K != k:
		bad = "metadata-of-other-key"
	case len(data) >= 8 && bv.V != obj.V&0xffff:
		bad = "metadata-version-mismatch"
	case obj.V > 0 && len(data) != c01bodyLen(k, obj.V, w.maxBody):
		bad = "stored-body-cut-or-padded"
	}
	if bad == "" {
		return
	}
	sig := fmt.Sprintf("C01:torn-read:%s:%s", w.backend, bad)
	w.r.Violation("C01", sig, fmt.Sprintf("a read of key %d (%s) returned a body that is %s: %s, metadata size=%d object=%+v, read error=%v", k, style, bad, bv, size, obj, rerr),
		map[string]any{"id": w.histID, "variant": w.variant, "backend": w.backend},
		map[string]any{"event": ev, "verdict": bv.String(), "got_len": len(data), "meta_size": size, "meta_object": obj, "style": style, "head": string(data[:min(len(data), 48)])})
}

func c01RunHistories(b core.Batch, r *core.Recorder) {
	backend := b.Str("backend", "memory")
	variant := b.Str("variant", "plain") // plain | eviction | faults
	nHist := b.Int("histories", 10)
	workers := b.Int("workers", 8)
	ops := b.Int("ops", 40)
	keys := b.Int("keys", 3)
	shards := b.Int("shards", 16)
	wd, _ := os.Getwd()
	for h := 0; h < nHist; h++ {
		id := fmt.Sprintf("h%d", h)
		if !r.Case(id, map[string]any{"backend": backend, "variant": variant}) {
			continue
		}
		ctx, cancel := context.WithCancel(context.Background())
		opts := rig.CacheOpts{Backend: backend, Dir: filepath.Join(wd, "cachedir"), Max: 1 << 40, Shards: shards}
		maxBody := 6000
		if variant == "eviction" {
			opts.Max = 12000
			opts.Interval = time.Millisecond
		}
		c, _ := rig.NewCache(ctx, opts)
		w := &c01World{c: c, backend: backend, start: time.Now(), r: r, variant: variant, histID: id, maxBody: maxBody}
		var wg sync.WaitGroup
		for i := 0; i < workers; i++ {
			wg.Add(1)
			rng := b.Rand(fmt.Sprintf("c01-%s-%d-%d", variant, h, i))
			go func() {
				defer wg.Done()
				w.worker(i, rng, ops, keys, variant == "faults")
			}()
		}
		wg.Wait()
		c.Destroy()
		cancel()
		r.Eval(1)

		// overlap accounting: a read whose [get call, read end] overlaps a put/del of the same key
		evs := w.events
		overl := 0
		for _, g := range evs {
			if g.In.Kind != "get" || g.Out.Status != "ok" {
				continue
			}
			end := g.ReadEnd
			if end == 0 {
				end = g.Ret
			}
			for _, p := range evs {
				if (p.In.Kind == "put" || p.In.Kind == "del") && p.In.Key == g.In.Key && p.Call < end && p.Ret > g.Call {
					overl++
					break
				}
			}
		}
		r.Count("reads_overlapping_writer_"+backend, int64(overl))
		r.Count("ops", int64(len(evs)))
		if overl > 0 {
			r.Nontrivial(backend, variant, h, b.Seed, b.Name)
		}

		// offline: porcupine per key
		hist := make([]porcupine.Operation, 0, len(evs))
		for _, e := range evs {
			hist = append(hist, porcupine.Operation{ClientId: e.Client, Input: e.In, Call: e.Call, Output: e.Out, Return: e.Ret})
		}
		res, info := porcupine.CheckOperationsVerbose(c01Model(variant == "eviction"), hist, 30*time.Second)
		r.Count("porcupine_histories", 1)
		r.Count("porcupine_partitions", int64(keys))
		switch res {
		case porcupine.Ok:
			r.Count("porcupine_ok", 1)
		case porcupine.Unknown:
			r.Count("porcupine_unknown", 1)
			r.NotJudged("porcupine-timeout")
		case porcupine.Illegal:
			// find the offending key: check each partition separately
			badKey, witness := -1, []c01Ev{}
			for k := 0; k < keys; k++ {
				var sub []porcupine.Operation
				for _, o := range hist {
					if o.Input.(c01In).Key == k {
						sub = append(sub, o)
					}
				}
				if porcupine.CheckOperations(c01Model(variant == "eviction"), sub) {
					continue
				}
				badKey = k
				for _, e := range evs {
					if e.In.Key == k {
						witness = append(witness, e)
					}
				}
				break
			}
			sort.Slice(witness, func(i, j int) bool { return witness[i].Call < witness[j].Call })
			if len(witness) > 120 {
				witness = witness[:120]
			}
			_ = info
			sig := fmt.Sprintf("C01:stale-read:%s:%s", backend, variant)
			r.Violation("C01", sig, fmt.Sprintf("history of key %d is not linearizable against the register model: some read returned a version that had already been replaced or removed, or a version never current", badKey),
				map[string]any{"id": id, "variant": variant, "backend": backend, "key": badKey}, witness)
		}
		if h == 0 {
			n := len(evs)
			if n > 6 {
				n = 6
			}
			r.Sample(map[string]any{"backend": backend, "variant": variant, "workers": workers, "ops_per_worker": ops, "first_events": evs[:n]})
		}
	}
}

func c01Run(b core.Batch, r *core.Recorder) {
	switch b.Str("mode", "cache") {
	case "cache":
		c01RunHistories(b, r)
	case "proxy":
		c01RunProxy(b, r)
	}
}

func c01Plan(tier string, seed int64) []core.Batch {
	var bs []core.Batch
	hist, ops := 14, 40
	shardSets := []int{16}
	if tier == "thorough" {
		hist, ops = 250, 50
		shardSets = []int{1, 2, 3, 16, 1024}
	}
	for _, be := range []string{"memory", "file"} {
		for _, variant := range []string{"plain", "eviction", "faults"} {
			for _, sh := range shardSets {
				bs = append(bs, core.Batch{Name: fmt.Sprintf("cache-%s-%s-sh%d", be, variant, sh), Race: true, TimeoutS: 1200,
					Args: map[string]any{"mode": "cache", "backend": be, "variant": variant, "histories": hist, "ops": ops, "shards": sh}})
			}
		}
	}
	bs = append(bs, c01ProxyPlan(tier)...)
	return bs
}

func init() {
	core.Register(&core.Monitor{
		ID:    "C01",
		Level: "exploration",
		Rule: "cache level: 8 workers x 40-50 ops on 3 keys per history (stores of uniquely versioned self-describing bodies incl. slow, failing and empty sources; reads in 6 styles incl. chunked/paused/ReadAt/seek; delete; update-metadata), variants plain / eviction (12 kB limit, 1 ms janitor) / faults, memory and file backend; every read is verified byte-for-byte online and every history is checked per key with porcupine against a register model. " +
			"proxy level: versioned resources fetched through the real proxy (plain and CONNECT) while other clients refresh/overwrite/range-read them and origin transfers abort part-way. " +
			"Non-trivial = history in which at least one successful read overlapped a store/delete of the same key (cache level) or a response built from the store whose body was verified (proxy level).",
		Assumptions: []string{
			"histories are recorded at the client boundary of the cache API with one monotonic clock",
			"a store that returns an error may leave the key unchanged or absent (both accepted); it must never expose the new partial body",
			"in the eviction variant NotFound is always a legal read result",
		},
		Plan:     c01Plan,
		Run:      c01Run,
		Parallel: 6,
		Floors: map[string]map[string]int64{
			"quick":    {"reads_overlapping_writer_memory": 200, "reads_overlapping_writer_file": 200},
			"thorough": {"reads_overlapping_writer_memory": 20000, "reads_overlapping_writer_file": 20000},
		},
	})
}
