package mon

// C02 — distinct resources never share a cache entry.
//
// Search + end-to-end confirmation. Search: request targets are generated as wire text,
// parsed with http.ReadRequest exactly as the proxy's server would and keyed with
// cache.MakeFromRequest; they are bucketed by key and, independently, by a reference
// identity written from the statement. Buckets of one partition split by the other yield
// candidate pairs, which are then confirmed through the real proxy: A is stored, B is
// requested, the origin's body names the request it answered.

import (
	"bufio"
	"fmt"
	"net/http"
	"sort"
	"strings"
	"sync"
	"sync/atomic"

	"reservoir/cache"
	"verifharness/core"
	"verifharness/rig"
)

type c02target struct {
	Method, Host, Path, Query string // Query includes the leading "?" or is ""
}

func (t c02target) wire() string { return t.Path + t.Query }

func c02key(t c02target) (cache.CacheKey, bool) {
	raw := fmt.Sprintf("%s http://%s%s%s HTTP/1.1\r\nHost: %s\r\n\r\n", t.Method, t.Host, t.Path, t.Query, t.Host)
	req, err := http.ReadRequest(bufio.NewReader(strings.NewReader(raw)))
	if err != nil {
		return cache.CacheKey{}, false
	}
	return cache.MakeFromRequest(req), true
}

func isUnreserved(c byte) bool {
	return c >= 'a' && c <= 'z' || c >= 'A' && c <= 'Z' || c >= '0' && c <= '9' || c == '-' || c == '.' || c == '_' || c == '~'
}

func unhex(c byte) int {
	switch {
	case c >= '0' && c <= '9':
		return int(c - '0')
	case c >= 'a' && c <= 'f':
		return int(c-'a') + 10
	case c >= 'A' && c <= 'F':
		return int(c-'A') + 10
	}
	return -1
}

// normPct decodes percent-encoded unreserved characters and upper-cases the other escapes.
func normPct(seg string) string {
	var b strings.Builder
	for i := 0; i < len(seg); i++ {
		if seg[i] == '%' && i+2 < len(seg) && unhex(seg[i+1]) >= 0 && unhex(seg[i+2]) >= 0 {
			c := byte(unhex(seg[i+1])<<4 | unhex(seg[i+2]))
			if isUnreserved(c) {
				b.WriteByte(c)
			} else {
				b.WriteString("%" + strings.ToUpper(seg[i+1:i+3]))
			}
			i += 2
			continue
		}
		if seg[i] == '|' {
			b.WriteString("%7C") // a raw '|' is not a legal URI character; its escaped form is the same resource
			continue
		}
		b.WriteByte(seg[i])
	}
	return b.String()
}

// refPath applies remove-dot-segments on the raw path split on literal '/', optionally merging
// duplicate slashes and normalising percent-encoding; a trailing slash is significant.
func refPath(raw string, mergeSlashes, pct bool) string {
	segs := strings.Split(raw, "/")
	var out []string
	trailing := false
	for i, s := range segs {
		if i == 0 {
			continue // leading empty segment before the first '/'
		}
		if pct {
			s = normPct(s)
		}
		last := i == len(segs)-1
		switch s {
		case ".":
			trailing = last
		case "..":
			if len(out) > 0 {
				out = out[:len(out)-1]
			}
			trailing = last
		case "":
			if last {
				trailing = true
			} else if !mergeSlashes {
				out = append(out, "")
			}
		default:
			out = append(out, s)
			trailing = false
		}
	}
	p := "/" + strings.Join(out, "/")
	if trailing && p != "/" {
		p += "/"
	}
	return p
}

// identity: the statement's notion of "same resource" (loose = everything the statement allows to be
// identified; strict = only what it demands to be identified: host case and dot-segments).
func c02identity(t c02target, loose bool) string {
	q := t.Query
	if q == "?" {
		q = "" // an empty query and no query are not told apart
	}
	return t.Method + " " + strings.ToLower(t.Host) + " " + refPath(t.Path, loose, loose) + " " + q
}

func c02class(a, b c02target) string {
	switch {
	case a.Method != b.Method:
		return "method"
	case len(a.wire()) > 100 && strings.ReplaceAll(a.wire(), "?", "") == strings.ReplaceAll(b.wire(), "?", ""):
		return "long-component-moved-across-boundary"
	case len(a.wire()) > 100 && len(a.wire()) == len(b.wire()):
		return "long-target-differing-near-the-end"
	case !strings.EqualFold(a.Host, b.Host):
		return "host"
	case strings.Contains(strings.ToUpper(a.Path+b.Path), "%25") && (strings.ReplaceAll(strings.ToUpper(a.Path), "%25", "%") == strings.ToUpper(b.Path) || strings.ReplaceAll(strings.ToUpper(b.Path), "%25", "%") == strings.ToUpper(a.Path)):
		return "escaped-percent-sign"
	case strings.TrimSuffix(a.Path, "/") == strings.TrimSuffix(b.Path, "/") && a.Query == b.Query:
		return "trailing-slash"
	case strings.Contains(strings.ToUpper(a.Path+b.Path), "%2F") && strings.ReplaceAll(strings.ToUpper(a.Path), "%2F", "/") == strings.ReplaceAll(strings.ToUpper(b.Path), "%2F", "/") && a.Query == b.Query:
		return "pct-encoded-slash"
	case strings.Contains(a.wire(), "|") || strings.Contains(b.wire(), "|") || strings.Contains(strings.ToUpper(a.wire()+b.wire()), "%7C"):
		if strings.ReplaceAll(strings.ReplaceAll(a.wire(), "?", "|"), "%7C", "|") == strings.ReplaceAll(strings.ReplaceAll(b.wire(), "?", "|"), "%7C", "|") {
			return "pipe-moves-across-boundary"
		}
		return "pipe-other"
	case strings.Contains(strings.ToUpper(a.Path+b.Path), "%2F"):
		return "pct-encoded-slash"
	case strings.ToLower(a.Path) == strings.ToLower(b.Path) && a.Path != b.Path:
		return "path-case"
	case a.Path == b.Path && a.Query != b.Query:
		return "query"
	case refPath(a.Path, true, true) != refPath(b.Path, true, true) && strings.TrimSuffix(refPath(a.Path, true, true), "/") == strings.TrimSuffix(refPath(b.Path, true, true), "/"):
		return "trailing-slash-after-normalisation"
	}
	return "other"
}

func c02generate(b core.Batch) []c02target {
	pathSyms := []string{"a", "A", "/", ".", "..", "|", "%7C", "%2F", "%2E", ";", "b"}
	querySyms := []string{"a", "|", "&", "=", "%7C", "b"}
	depth := b.Int("depth", 4)
	qdepth := b.Int("qdepth", 2)
	var paths, queries []string
	var rec func(cur string, d int, syms []string, max int, out *[]string)
	rec = func(cur string, d int, syms []string, max int, out *[]string) {
		*out = append(*out, cur)
		if d == max {
			return
		}
		for _, s := range syms {
			rec(cur+s, d+1, syms, max, out)
		}
	}
	rec("/", 0, pathSyms, depth, &paths)
	var qs []string
	rec("", 0, querySyms, qdepth, &qs)
	queries = append(queries, "")
	for _, q := range qs {
		queries = append(queries, "?"+q)
	}
	var out []c02target
	for _, m := range []string{"GET", "HEAD", "POST"} {
		for _, h := range []string{"localhost:80", "LOCALHOST:80"} {
			for pi, p := range paths {
				if m != "GET" && pi%97 != 0 {
					continue // other methods: a thin sample (the method is a separate key component)
				}
				for _, q := range queries {
					out = append(out, c02target{m, h, p, q})
				}
			}
		}
	}
	// a wider host alphabet (names and ports differing in leading/trailing characters) on a thin path sample
	for _, h := range []string{"localhost:8080", "localhost:8000", "localhost:8", "localhost:88", "localhost:800", "localhost:8088", "localhost", "localhost:443", "localhost0:80", "localhost8:80", "xlocalhost:80",
		"127.0.0.1:80", "127.0.0.1:8080", "127.0.0.1:8088", "127.0.0.10:80", "127.0.0.1:31080", "127.0.0.1:31088", "[::1]:80", "[::1]:8080"} {
		for pi, p := range paths {
			if pi%53 != 0 {
				continue
			}
			for _, q := range queries[:min(len(queries), 4)] {
				out = append(out, c02target{"GET", h, p, q})
			}
		}
	}
	// long targets that agree in a long prefix and differ only near the end (equal lengths), in path or query
	for _, n := range []int{120, 230, 260, 300, 600, 2000} {
		pre := strings.Repeat("segment/", n/8)
		for _, suf := range []string{"a", "b", "A"} {
			out = append(out, c02target{"GET", "localhost:80", "/" + pre + "x" + suf, ""})
			out = append(out, c02target{"GET", "localhost:80", "/long", "?" + strings.Repeat("k=v&", n/4) + "part=" + suf})
		}
	}
	// an encoded percent sign: "%25XX" is the three characters "%XX", not the character XX stands for. Every
	// enumerated path that contains an escape is also emitted with its percent signs escaped once more, plus a fixed list.
	for pi, p := range paths {
		if strings.Contains(p, "%") && pi%7 == 0 {
			out = append(out, c02target{"GET", "localhost:80", strings.ReplaceAll(p, "%", "%25"), ""})
			out = append(out, c02target{"GET", "localhost:80", strings.ReplaceAll(p, "%", "%2525"), ""})
		}
	}
	for _, p := range []string{"/npm/@scope%2Fname", "/npm/@scope%252Fname", "/files/report%41.pdf", "/files/report%2541.pdf", "/k%2f", "/k%252f", "/x%20y", "/x%2520y", "/%25", "/%2525", "/q%3Fx", "/q%253Fx", "/h%23", "/h%2523"} {
		out = append(out, c02target{"GET", "localhost:80", p, ""}, c02target{"GET", "localhost:80", "/pre" + p, "?v=1"})
	}
	// long components whose tail moves across the path/query boundary in one piece (lengths around the powers of
	// two where a truncated length prefix or counter would wrap)
	for _, m := range []int{1, 15, 16, 17, 127, 128, 129, 254, 255, 256, 257, 300, 511, 512, 513, 1023, 1024, 1025, 4096, 65535, 65536} {
		tok := strings.Repeat("abcdefghijklmnop", m/16+1)[:m]
		out = append(out, c02target{"GET", "localhost:80", "/dl/" + tok, ""}, c02target{"GET", "localhost:80", "/dl/", "?" + tok})
		out = append(out, c02target{"GET", "localhost:80", "/repo/" + tok + "/x", "?y"}, c02target{"GET", "localhost:80", "/repo/", "?" + tok + "/x?y"})
		out = append(out, c02target{"GET", "localhost:80" + "", "/" + tok, "?q=" + tok}, c02target{"GET", "localhost:80", "/" + tok + "?q=" + tok, ""})
	}
	// seeded random longer targets
	rng := b.Rand("c02")
	for i := 0; i < b.Int("random", 20000); i++ {
		var p strings.Builder
		p.WriteString("/")
		for k := 0; k < 3+rng.IntN(8); k++ {
			p.WriteString(pathSyms[rng.IntN(len(pathSyms))])
		}
		q := ""
		if rng.IntN(2) == 0 {
			q = "?"
			for k := 0; k < rng.IntN(5); k++ {
				q += querySyms[rng.IntN(len(querySyms))]
			}
		}
		out = append(out, c02target{"GET", []string{"localhost:80", "LOCALHOST:80", "LocalHost:80"}[rng.IntN(3)], p.String(), q})
	}
	return out
}

type c02pair struct {
	A, B  c02target
	Kind  string // must-not-share | must-share
	Class string
}

func c02Run(b core.Batch, r *core.Recorder) {
	rig.QuietLogs()
	targets := c02generate(b)
	byKey := map[string][]int{}
	byStrict := map[string][]int{}
	keys := make([]string, len(targets))
	loose := make([]string, len(targets))
	literal := make([]string, len(targets)) // like loose, but %2E is read literally, not as a dot
	parsed := 0
	for i, t := range targets {
		k, ok := c02key(t)
		if !ok {
			continue
		}
		parsed++
		keys[i] = k.Hex
		loose[i] = c02identity(t, true)
		lt := t
		lt.Path = strings.NewReplacer("%2E", "%252E", "%2e", "%252E").Replace(t.Path)
		literal[i] = c02identity(lt, true)
		byKey[k.Hex] = append(byKey[k.Hex], i)
		// "must share" is only demanded where the reading is unambiguous: no duplicate slashes next to
		// dot-segments and no percent-encoded dots (RFC 3986 and slash-merging normalisers disagree there)
		if !strings.Contains(t.Path, "//") && !strings.Contains(strings.ToUpper(t.Path), "%2E") {
			s := c02identity(t, false)
			byStrict[s] = append(byStrict[s], i)
		}
	}
	r.Eval(int64(parsed))
	r.Count("targets_keyed", int64(parsed))
	r.Count("distinct_keys", int64(len(byKey)))

	// origin-form request lines (what a client sends inside a CONNECT tunnel, or to the proxy with only a Host header):
	// the host is named by the Host field alone. The same request line for two hosts, in both orders, must give two
	// keys, and each must be the key the absolute form of that target gets.
	{
		originForm := func(method, host, target string) (string, bool) {
			raw := fmt.Sprintf("%s %s HTTP/1.1\r\nHost: %s\r\n\r\n", method, target, host)
			req, err := http.ReadRequest(bufio.NewReader(strings.NewReader(raw)))
			if err != nil {
				return "", false
			}
			return cache.MakeFromRequest(req).Hex, true
		}
		n := 0
		for _, tgt := range []string{"/p", "/", "/dir/file?x=1", "/a%2Fb", "/p?"} {
			for _, hosts := range [][2]string{{"host-a.example:443", "host-b.example:443"}, {"host-b.example:443", "host-a.example:443"}, {"127.0.0.1:8443", "127.0.0.1:9443"}, {"first.example", "second.example"}} {
				ka, ok1 := originForm("GET", hosts[0], tgt)
				kb, ok2 := originForm("GET", hosts[1], tgt)
				if !ok1 || !ok2 {
					continue
				}
				n++
				r.Eval(1)
				if ka == kb {
					r.Violation("C02", "C02:collide:key-level:host:origin-form", fmt.Sprintf("GET %s with Host %s and then with Host %s (origin-form request lines, as inside a tunnel) get the same key", tgt, hosts[0], hosts[1]),
						map[string]any{"id": "origin-form", "target": tgt, "hosts": hosts}, nil)
				}
			}
		}
		r.Count("origin_form_host_pairs", int64(n))
	}

	// the key is a function of the target alone: the same targets keyed from 8 goroutines at once give the keys
	// they gave one at a time (a key computed in shared scratch space would hand one request another's entry)
	{
		step := max(1, len(targets)/4000)
		var sample []int
		for i := 0; i < len(targets); i += step {
			if keys[i] != "" {
				sample = append(sample, i)
			}
		}
		var wg sync.WaitGroup
		var bad atomic.Int64
		var first atomic.Value
		for g := 0; g < 8; g++ {
			wg.Add(1)
			go func() {
				defer wg.Done()
				for rep := 0; rep < 3; rep++ {
					for k := range sample {
						i := sample[(k*7+g*131)%len(sample)]
						if kk, ok := c02key(targets[i]); !ok || kk.Hex != keys[i] {
							bad.Add(1)
							first.CompareAndSwap(nil, targets[i].wire())
						}
					}
				}
			}()
		}
		wg.Wait()
		r.Eval(1)
		r.Count("keys_recomputed_concurrently", int64(len(sample)*24))
		if bad.Load() > 0 {
			r.Violation("C02", "C02:key-depends-on-concurrent-requests", fmt.Sprintf("%d of %d keys computed from 8 goroutines at once differ from the key the same target got on its own (first: %v)", bad.Load(), len(sample)*24, first.Load()),
				map[string]any{"id": "concurrent-keys"}, nil)
		}
	}

	// candidate pairs
	perClass := map[string][]c02pair{}
	limit := b.Int("pairs_per_class", 12)
	addPair := func(p c02pair) {
		k := p.Kind + ":" + p.Class
		if len(perClass[k]) < limit {
			perClass[k] = append(perClass[k], p)
		}
		r.Count("candidate_pairs_"+p.Kind, 1)
	}
	for _, idxs := range byKey {
		if len(idxs) < 2 {
			continue
		}
		// one representative per loose identity within the bucket
		rep := map[string]int{}
		for _, i := range idxs {
			if _, ok := rep[loose[i]]; !ok {
				rep[loose[i]] = i
			}
		}
		if len(rep) < 2 {
			continue
		}
		ids := make([]string, 0, len(rep))
		for id := range rep {
			ids = append(ids, id)
		}
		sort.Strings(ids)
		for j := 1; j < len(ids); j++ {
			a, bb := targets[rep[ids[0]]], targets[rep[ids[j]]]
			if literal[rep[ids[0]]] == literal[rep[ids[j]]] {
				continue // differ only through the reading of percent-encoded dots: not demanded distinct
			}
			addPair(c02pair{A: a, B: bb, Kind: "must-not-share", Class: c02class(a, bb)})
		}
	}
	for _, idxs := range byStrict {
		if len(idxs) < 2 {
			continue
		}
		first := idxs[0]
		for _, i := range idxs[1:] {
			if keys[i] != keys[first] {
				a, bb := targets[first], targets[i]
				cl := "dot-segments"
				if a.Host != bb.Host {
					cl = "host-case"
				}
				addPair(c02pair{A: a, B: bb, Kind: "must-share", Class: cl})
				break
			}
		}
	}
	// always confirm positive controls end to end, so the e2e oracle is exercised on every run
	controls := []c02pair{
		{A: c02target{"GET", "localhost:80", "/ctl/x", ""}, B: c02target{"GET", "LOCALHOST:80", "/ctl/x", ""}, Kind: "must-share", Class: "host-case"},
		{A: c02target{"GET", "localhost:80", "/ctl/a/../y", ""}, B: c02target{"GET", "localhost:80", "/ctl/y", ""}, Kind: "must-share", Class: "dot-segments"},
		{A: c02target{"GET", "localhost:80", "/ctl/z", "?q=1"}, B: c02target{"GET", "localhost:80", "/ctl/z", "?q=2"}, Kind: "must-not-share", Class: "query"},
		{A: c02target{"GET", "localhost:80", "/ctl/w", ""}, B: c02target{"GET", "localhost:80", "/ctl/W", ""}, Kind: "must-not-share", Class: "path-case"},
		{A: c02target{"GET", "localhost:80", "/ctl/dir/", ""}, B: c02target{"GET", "localhost:80", "/ctl/dir", ""}, Kind: "must-not-share", Class: "trailing-slash"},
		{A: c02target{"GET", "localhost:80", "/ctl/a|b", "?c"}, B: c02target{"GET", "localhost:80", "/ctl/a", "?b|c"}, Kind: "must-not-share", Class: "pipe-moves-across-boundary"},
		{A: c02target{"GET", "localhost:80", "/ctl/a%2Fb", ""}, B: c02target{"GET", "localhost:80", "/ctl/a/b", ""}, Kind: "must-not-share", Class: "pct-encoded-slash"},
		{A: c02target{"GET", "localhost:80", "/ctl/p", "?a=1&b=2"}, B: c02target{"GET", "localhost:80", "/ctl/p", "?b=2&a=1"}, Kind: "must-not-share", Class: "query"},
		{A: c02target{"GET", "localhost:80", "/ctl/s//t", ""}, B: c02target{"GET", "localhost:80", "/ctl/s/t/", ""}, Kind: "must-not-share", Class: "trailing-slash-after-normalisation"},
	}

	// ---- end-to-end confirmation
	o := rig.StartOrigin(func(w http.ResponseWriter, q *http.Request, rec *rig.OriginReq) {
		w.Header().Set("Cache-Control", "max-age=600")
		w.Header().Set("Content-Type", "text/plain")
		fmt.Fprintf(w, "target=%s host=%s", q.RequestURI, q.Host)
	})
	defer o.Close()
	port := o.Addr[strings.LastIndex(o.Addr, ":"):]
	p := rig.StartProxy(rig.ProxyOpts{Backend: b.Str("backend", "memory")})
	defer p.Close()
	// a second proxy whose cache never sees A: it shows what the origin receives for B
	p2 := rig.StartProxy(rig.ProxyOpts{Backend: "memory"})
	defer p2.Close()
	seenOf := func(resp *rig.Resp) string {
		return strings.TrimPrefix(strings.SplitN(string(resp.Body), " ", 2)[0], "target=")
	}
	n := 0
	confirm := func(pr c02pair, control bool) {
		n++
		if !strings.EqualFold(strings.TrimSuffix(pr.A.Host, ":80"), "localhost") || !strings.EqualFold(strings.TrimSuffix(pr.B.Host, ":80"), "localhost") {
			// hosts the rig cannot route to its origin: a key shared by different hosts is itself the shared entry
			if pr.Kind == "must-not-share" {
				r.Violation("C02", "C02:collide:key-level:"+pr.Class, fmt.Sprintf("GET %s%s and GET %s%s have the same cache key", pr.A.Host, pr.A.wire(), pr.B.Host, pr.B.wire()),
					map[string]any{"id": fmt.Sprintf("p%d", n), "pair": pr}, nil)
			}
			return
		}
		if pr.A.Method != "GET" || pr.B.Method != "GET" {
			// only GET answers are stored: sharing between methods is not observable end to end;
			// the key-level collision itself is reported
			if pr.Kind == "must-not-share" {
				r.Violation("C02", "C02:collide:key-level:"+pr.Class, fmt.Sprintf("%s %s%s and %s %s%s have the same cache key", pr.A.Method, pr.A.Host, pr.A.wire(), pr.B.Method, pr.B.Host, pr.B.wire()),
					map[string]any{"id": fmt.Sprintf("p%d", n), "pair": pr}, nil)
			}
			return
		}
		id := fmt.Sprintf("p%d", n)
		if !r.Case(id, pr) {
			return
		}
		prefix := fmt.Sprintf("/e%d", n)
		mk := func(t c02target) (rig.Req, string) {
			host := strings.Replace(t.Host, ":80", port, 1)
			return rig.Req{Target: "http://" + host + prefix + t.Path + t.Query}, prefix + t.Path + t.Query
		}
		qa, wa := mk(pr.A)
		qb, wb := mk(pr.B)
		ra := rig.PlainDo(p.Addr, qa)
		seq := o.LastSeq()
		rb := rig.PlainDo(p.Addr, qb)
		got := o.Since(seq)
		r.Count("pairs_confirmed_e2e", 1)
		r.Nontrivial(pr.Kind, pr.Class, pr.A.wire(), pr.B.wire(), pr.A.Host, pr.B.Host)
		cs := map[string]any{"id": id, "pair": pr, "control": control}
		wit := map[string]any{"A_status": ra.Status, "A_body": string(ra.Body), "A_xcache": ra.Get("X-Cache"), "B_status": rb.Status, "B_body": string(rb.Body), "B_xcache": rb.Get("X-Cache"), "origin_requests_for_B": got}
		if !ra.OK() || !rb.OK() || ra.Status != 200 || rb.Status != 200 {
			r.NotJudged("pair-not-served-200")
			return
		}
		aSeen := seenOf(ra)
		rb2 := rig.PlainDo(p2.Addr, qb)
		if !rb2.OK() || rb2.Status != 200 {
			r.NotJudged("pair-not-served-200")
			return
		}
		bSeen := seenOf(rb2)
		wit["origin_sees_for_A"], wit["origin_sees_for_B"] = aSeen, bSeen
		sharedWithA := len(got) == 0 || rb.Get("X-Cache") == "HIT"
		switch pr.Kind {
		case "must-not-share":
			if !sharedWithA {
				if control {
					r.Count("controls_ok", 1)
				}
				return
			}
			// the proxy sends byte-identical targets upstream for both: sharing is unobservable
			// (the rewriting itself is a C08 matter)
			if aSeen == bSeen {
				r.NotJudged("masked-identical-upstream-target")
				return
			}
			r.Violation("C02", "C02:collide:"+pr.Class, fmt.Sprintf("GET %s was answered from the entry stored for GET %s (no origin contact; body says %q)", wb, wa, core.Trunc(string(rb.Body), 80)), cs, wit)
		case "must-share":
			if sharedWithA {
				if control {
					r.Count("controls_ok", 1)
				}
				return
			}
			// if what the origin receives differs beyond host case / dot-segments, the proxy itself treats
			// them as different resources upstream: sharing is not demanded
			pa, qa2, _ := strings.Cut(aSeen, "?")
			pb, qb2, _ := strings.Cut(bSeen, "?")
			if refPath(pa, false, false) != refPath(pb, false, false) || qa2 != qb2 {
				r.NotJudged("upstream-targets-differ-beyond-dot-segments")
				return
			}
			r.Violation("C02", "C02:split:"+pr.Class, fmt.Sprintf("GET %s%s did not share the entry of GET %s%s although they differ only in %s", pr.B.Host, wb, pr.A.Host, wa, pr.Class), cs, wit)
		}
	}
	for _, c := range controls {
		confirm(c, true)
	}
	var ks []string
	for k := range perClass {
		ks = append(ks, k)
	}
	sort.Strings(ks)
	for _, k := range ks {
		for _, pr := range perClass[k] {
			confirm(pr, false)
		}
	}
	r.Note("candidate_classes", ks)
	r.Sample(map[string]any{"targets": parsed, "distinct_keys": len(byKey), "candidate_classes": ks, "example_target": targets[len(targets)/2], "controls": len(controls)})
}

func c02Plan(tier string, seed int64) []core.Batch {
	depth, rnd := 4, 20000
	if tier == "thorough" {
		depth, rnd = 5, 300000
	}
	return []core.Batch{
		{Name: "search-memory", TimeoutS: 1800, Args: map[string]any{"depth": depth, "qdepth": 2, "random": rnd, "backend": "memory"}},
		{Name: "search-file", TimeoutS: 1800, Args: map[string]any{"depth": min(depth, 4), "qdepth": 1, "random": rnd / 4, "backend": "file"}},
	}
}

func init() {
	core.Register(&core.Monitor{
		ID:    "C02",
		Level: "exploration",
		Rule: "request targets = method {GET; thin sample of HEAD, POST} x host {localhost, LOCALHOST, LocalHost; 19 further host:port forms on a thin path sample} x path '/' + up to <depth> symbols from {a, A, /, ., .., |, %7C, %2F, %2E, ;, b} x query none or '?' + up to 2 symbols from {a, |, &, =, %7C, b} (bounded-exhaustive) plus seeded random longer targets; each is parsed with http.ReadRequest and keyed with the real key function. " +
			"Targets are bucketed by key and by the reference identity (method, lower-cased host, raw path split on literal '/' with dot-segments removed [duplicate slashes merged and unreserved pct-escapes normalised in the loose identity], trailing slash significant, raw query). Every bucket split by the other partition gives candidate pairs (up to 12 per class), confirmed through the real proxy with an origin whose body names the request it answered; 9 fixed control pairs are always confirmed. Non-trivial = distinct pair confirmed end to end.",
		Assumptions: []string{"pairs differing only in percent-encoding of unreserved characters or in duplicate slashes are neither required to share nor to be distinct",
			"if the origin would receive byte-identical targets for both requests, sharing is unobservable and the pair is not judged", "sharing between different methods is not observable end to end (only GET answers are stored); a key-level collision between methods is reported as such"},
		Plan:     c02Plan,
		Run:      c02Run,
		Parallel: 2,
		Floors:   map[string]map[string]int64{"quick": {"targets_keyed": 100000, "controls_ok": 8}, "thorough": {"targets_keyed": 1000000, "controls_ok": 8}},
	})
}
