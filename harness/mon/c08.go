package mon

// C08 — relayed traffic is faithful in both directions.
//
// Differential echo monitor: generated requests go through the real proxy (plain and
// tunnel) to an origin that logs them verbatim and answers from a generated script.
// Request direction: method, request-target bytes, end-to-end headers and body must
// arrive unchanged; response direction: status, every end-to-end header with all values
// in order and the body must arrive unchanged; hop-by-hop headers must not cross.

import (
	"bufio"
	"bytes"
	"crypto/sha256"
	"encoding/hex"
	"fmt"
	"io"
	"net"
	"net/http"
	"os/exec"
	"reservoir/cache"
	"reservoir/utils/verifhook"
	"sort"
	"strings"
	"sync"
	"sync/atomic"
	"time"

	"verifharness/core"
	"verifharness/rig"
)

type c08script struct {
	Status  int
	Header  [][2]string
	Body    []byte
	Chunked bool
	Close   bool // the origin closes the connection after this response ("close" among its Connection tokens)
}

type c08target struct{ T, Class string }

var c08targets = []c08target{
	{"/p", "simple"}, {"/", "root"}, {"/a%2Fb", "pct-slash"}, {"/a%7Cb", "pct-pipe"}, {"/a;b=c", "semicolon"},
	{"/p?", "empty-query"}, {"/p?x=1&y=2", "query"}, {"/a/./b/../c", "dot-segments"}, {"/p//q", "double-slash"},
	{"/p?q=%20+%2B", "query-escapes"}, {"/sp%20ace", "pct-space"}, {"/dir/", "trailing-slash"}, {"/%41bc", "pct-unreserved"},
	{"/p?a=b?c=d", "query-with-qmark"}, {"/p?x=|y", "query-pipe"},
}

var c08methods = []string{"GET", "HEAD", "POST", "PUT", "PATCH", "DELETE", "OPTIONS"}

var c08hopByHop = []string{"Connection", "Proxy-Connection", "Keep-Alive", "Proxy-Authenticate", "Proxy-Authorization", "Te", "Trailer", "Transfer-Encoding", "Upgrade"}

// headers the proxy (or its HTTP client / server) owns on each side
var c08proxyOwnedResp = map[string]bool{"Via": true, "X-Cache": true, "Cache-Status": true, "Age": true, "Accept-Ranges": true,
	"Content-Length": true, "Transfer-Encoding": true, "Connection": true, "Date": true}

// fields to which a proxy appends its own value (RFC 9110 Via, RFC 9211 Cache-Status; X-Cache by convention)
var c08proxyAppends = map[string]bool{"Via": true, "Cache-Status": true, "X-Cache": true}
var c08clientAdds = map[string]bool{"User-Agent": true, "Accept-Encoding": true, "Content-Length": true, "Connection": true}

type c08world struct {
	mu      sync.Mutex
	scripts map[string]c08script
}

// handler writes the scripted response as raw bytes, so that what "the origin sent" is known
// exactly (Go's server would rewrite the Connection header). Half of the responses close the
// connection afterwards (then "close" is among the Connection tokens), half keep it alive.
func (w *c08world) handler(r *http.Request, rec *rig.OriginReq) ([]byte, bool) {
	id := r.Header.Get("X-Verif-Case")
	w.mu.Lock()
	s, ok := w.scripts[id]
	w.mu.Unlock()
	if !ok {
		return []byte("HTTP/1.1 599 No Script\r\nContent-Length: 0\r\n\r\n"), true
	}
	rec.SetNote(id)
	var b strings.Builder
	fmt.Fprintf(&b, "HTTP/1.1 %d %s\r\n", s.Status, http.StatusText(s.Status))
	sawConn := false
	for _, kv := range s.Header {
		v := kv[1]
		if http.CanonicalHeaderKey(kv[0]) == "Connection" {
			if s.Close && !sawConn {
				v += ", close"
			}
			sawConn = true
		}
		fmt.Fprintf(&b, "%s: %s\r\n", kv[0], v)
	}
	if !sawConn && s.Close {
		b.WriteString("Connection: close\r\n")
	}
	noBody := r.Method == "HEAD" || s.Status == 204 || s.Status == 304
	if s.Chunked && !noBody {
		b.WriteString("Transfer-Encoding: chunked\r\n\r\n")
		for i := 0; i < len(s.Body); i += 700 {
			chunk := s.Body[i:min(i+700, len(s.Body))]
			fmt.Fprintf(&b, "%x\r\n%s\r\n", len(chunk), chunk)
		}
		b.WriteString("0\r\n\r\n")
	} else {
		if s.Status != 204 && s.Status != 304 {
			fmt.Fprintf(&b, "Content-Length: %d\r\n", len(s.Body))
		}
		b.WriteString("\r\n")
		if !noBody {
			b.Write(s.Body)
		}
	}
	return []byte(b.String()), s.Close
}

func sha8(b []byte) string {
	if len(b) == 0 {
		return ""
	}
	s := sha256.Sum256(b)
	return hex.EncodeToString(s[:8])
}

type c08case struct {
	ID           string      `json:"id"`
	Mode         string      `json:"mode"`
	Method       string      `json:"method"`
	Target       string      `json:"target"`
	TClass       string      `json:"target_class"`
	ReqHeader    [][2]string `json:"req_header"`
	ReqBody      int         `json:"req_body_len"`
	ReqChunk     bool        `json:"req_chunked"`
	Status       int         `json:"status"`
	RespHdr      [][2]string `json:"resp_header"`
	RespBody     int         `json:"resp_body_len"`
	RespChunk    bool        `json:"resp_chunked"`
	OriginCloses bool        `json:"origin_closes_connection"`
	Second       bool        `json:"second_request_same_resource"`
}

func valuesOf(hs [][2]string, name string) []string {
	var out []string
	for _, kv := range hs {
		if http.CanonicalHeaderKey(kv[0]) == http.CanonicalHeaderKey(name) {
			out = append(out, kv[1])
		}
	}
	return out
}

func namesOf(hs [][2]string) []string {
	seen := map[string]bool{}
	var out []string
	for _, kv := range hs {
		k := http.CanonicalHeaderKey(kv[0])
		if !seen[k] {
			seen[k] = true
			out = append(out, k)
		}
	}
	sort.Strings(out)
	return out
}

func c08isHop(name string, connListed map[string]bool) bool {
	k := http.CanonicalHeaderKey(name)
	for _, h := range c08hopByHop {
		if k == h {
			return true
		}
	}
	return connListed[k]
}

func c08connListed(hs [][2]string) map[string]bool {
	m := map[string]bool{}
	for _, v := range valuesOf(hs, "Connection") {
		for _, t := range strings.Split(v, ",") {
			t = strings.TrimSpace(t)
			if t != "" {
				m[http.CanonicalHeaderKey(t)] = true
			}
		}
	}
	return m
}

func c08statusClass(s int) string {
	switch {
	case s >= 300 && s < 400:
		return "3xx"
	case s >= 200 && s < 300:
		return "2xx"
	case s >= 400 && s < 500:
		return "4xx"
	default:
		return "5xx"
	}
}

func c08headerClass(name string, vals []string) string {
	if len(vals) > 1 {
		return "multi-valued:" + name
	}
	return "single:" + name
}

func c08gen(b core.Batch, i int, mode string, w *c08world) (c08case, rig.Req) {
	rng := b.Rand(fmt.Sprintf("c08-%d", i))
	c := c08case{ID: fmt.Sprintf("%s-%d", mode, i), Mode: mode}
	c.Method = c08methods[rng.IntN(len(c08methods))]
	if rng.IntN(3) == 0 {
		c.Method = "GET"
	}
	t := c08targets[rng.IntN(len(c08targets))]
	c.TClass = t.Class
	c.Target = fmt.Sprintf("/c%s%s", c.ID, t.T)
	// request headers
	c.ReqHeader = [][2]string{{"X-Verif-Case", c.ID}}
	pick := func(p int) bool { return rng.IntN(100) < p }
	if pick(50) {
		c.ReqHeader = append(c.ReqHeader, [2]string{"X-Multi", "one"}, [2]string{"X-Multi", "two, three"}, [2]string{"x-multi", "four"})
	}
	if pick(40) {
		c.ReqHeader = append(c.ReqHeader, [2]string{"x-lOwEr-CaSe", "Value With Spaces"})
	}
	if pick(40) {
		c.ReqHeader = append(c.ReqHeader, [2]string{"Accept", "text/x-verif;q=0.5, */*;q=0.1"})
	}
	if pick(30) {
		c.ReqHeader = append(c.ReqHeader, [2]string{"Cookie", "a=1; b=2"}, [2]string{"Cookie", "c=3"})
	}
	if pick(30) {
		c.ReqHeader = append(c.ReqHeader, [2]string{"User-Agent", "verif-client/1.0"})
	}
	if pick(30) {
		c.ReqHeader = append(c.ReqHeader, [2]string{"Authorization", "Bearer secret-end-to-end"})
	}
	if pick(35) {
		if pick(50) {
			c.ReqHeader = append(c.ReqHeader, [2]string{"Connection", "X-Hop-Req, keep-alive"}, [2]string{"X-Hop-Req", "must-not-arrive"}, [2]string{"Keep-Alive", "timeout=5"})
		} else {
			// the Connection field split over several field lines, mixed case tokens
			c.ReqHeader = append(c.ReqHeader, [2]string{"Connection", "keep-alive"}, [2]string{"X-Hop-Req", "must-not-arrive"}, [2]string{"Connection", "x-hop-req"},
				[2]string{"X-Hop-Req2", "must-not-arrive-either"}, [2]string{"connection", "X-HOP-REQ2"}, [2]string{"Keep-Alive", "timeout=5"})
		}
	}
	if pick(25) {
		c.ReqHeader = append(c.ReqHeader, [2]string{"Proxy-Authorization", "Basic cHJveHk6c2VjcmV0"})
	}
	if pick(15) {
		c.ReqHeader = append(c.ReqHeader, [2]string{"Proxy-Connection", "keep-alive"})
	}
	if pick(15) {
		c.ReqHeader = append(c.ReqHeader, [2]string{"TE", "trailers"})
	}
	if pick(30) {
		// end-to-end fields whose names merely begin like hop-by-hop ones
		c.ReqHeader = append(c.ReqHeader, [2]string{"Proxy-Trace-Id", "trace-" + c.ID}, [2]string{"Upgrade-Insecure-Requests", "1"}, [2]string{"Connection-Id", "c-7"}, [2]string{"Keep-Alive-Hint", "yes"}, [2]string{"Te-Extension", "x"})
	}
	var body []byte
	if c.Method == "POST" || c.Method == "PUT" || c.Method == "PATCH" || (c.Method == "DELETE" && pick(30)) {
		switch rng.IntN(4) {
		case 0:
		case 1:
			body = rig.Body(900, i, 1+rng.IntN(2000))
		case 2:
			body = rig.Body(901, i, 1+rng.IntN(5000))
			c.ReqChunk = true
		case 3:
			if b.Tier == "thorough" || i%10 == 0 {
				body = rig.Body(902, i, 1<<20)
			} else {
				body = rig.Body(902, i, 70000)
			}
		}
		if body != nil {
			c.ReqHeader = append(c.ReqHeader, [2]string{"Content-Type", "application/x-verif-req"})
		}
	}
	c.ReqBody = len(body)
	// response script
	statuses := []int{200, 200, 200, 201, 202, 203, 204, 206, 301, 302, 303, 307, 308, 400, 401, 403, 404, 405, 410, 418, 429, 500, 502, 503, 504}
	s := c08script{Status: statuses[rng.IntN(len(statuses))]}
	s.Header = append(s.Header, [2]string{"Content-Type", "application/x-verif-resp"}, [2]string{"X-Case", c.ID})
	if pick(55) {
		s.Header = append(s.Header, [2]string{"Set-Cookie", "sid=1; Path=/"}, [2]string{"Set-Cookie", "pref=2; Path=/x"}, [2]string{"Set-Cookie", "third=3"})
	}
	if pick(35) {
		s.Header = append(s.Header, [2]string{"Link", "</a>; rel=preload"}, [2]string{"Link", "</b>; rel=next"})
	}
	if pick(35) {
		s.Header = append(s.Header, [2]string{"Vary", "Accept"}, [2]string{"Vary", "X-Multi"})
	}
	if pick(25) {
		s.Header = append(s.Header, [2]string{"Warning", "199 - \"one\""}, [2]string{"Warning", "299 - \"two\""})
	}
	if pick(35) {
		if pick(50) {
			s.Header = append(s.Header, [2]string{"Connection", "X-Hop-Resp"}, [2]string{"X-Hop-Resp", "must-not-arrive"}, [2]string{"Keep-Alive", "timeout=9"})
		} else {
			s.Header = append(s.Header, [2]string{"Connection", "keep-alive"}, [2]string{"X-Hop-Resp", "must-not-arrive"}, [2]string{"Connection", "x-hop-resp, X-Hop-Resp2"},
				[2]string{"X-Hop-Resp2", "must-not-arrive-either"}, [2]string{"Keep-Alive", "timeout=9"})
		}
	}
	if pick(15) {
		s.Header = append(s.Header, [2]string{"Proxy-Authenticate", "Basic realm=x"})
	}
	if pick(30) {
		s.Header = append(s.Header, [2]string{"Proxy-Status", "upstream-cdn; received-status=200"}, [2]string{"Proxy-Trace-Id", "resp-trace"}, [2]string{"Upgrade-Hint", "none"}, [2]string{"Trailer-Id", "t-1"}, [2]string{"Transfer-Encoding-Hint", "identity"}, [2]string{"Connection-Id", "c-9"})
	}
	if pick(30) {
		// the origin sits behind another intermediary that has already written these fields: its values are
		// end-to-end and must still be there, in order, before whatever this proxy appends
		s.Header = append(s.Header, [2]string{"Via", "1.1 upstream-cdn"}, [2]string{"Via", "1.0 inner-gw (verif)"}, [2]string{"Cache-Status", "upstream-cdn; hit; ttl=17"}, [2]string{"X-Cache", "HIT from upstream-cdn"})
	}
	if pick(40) {
		s.Header = append(s.Header, [2]string{"ETag", fmt.Sprintf("\"e-%d\"", i)}, [2]string{"Last-Modified", rig.LastMod(i)})
	}
	switch cc := rng.IntN(6); cc {
	case 0:
		s.Header = append(s.Header, [2]string{"Cache-Control", "no-store"})
	case 1:
		s.Header = append(s.Header, [2]string{"Cache-Control", "max-age=300"})
	case 2:
		s.Header = append(s.Header, [2]string{"Cache-Control", "max-age=300, public"}, [2]string{"X-Long", strings.Repeat("v", 3000)})
	}
	if s.Status >= 300 && s.Status < 400 {
		s.Header = append(s.Header, [2]string{"Location", "/redirect-target-" + c.ID})
	}
	if s.Status != 204 {
		switch rng.IntN(5) {
		case 0:
		case 1, 2:
			s.Body = rig.Body(800, i, 1+rng.IntN(3000))
		case 3:
			s.Body = rig.Body(801, i, 1+rng.IntN(9000))
			s.Chunked = true
		case 4:
			s.Body = rig.Body(802, i, 200000)
		}
	}
	s.Close = pick(50)
	c.Status, c.RespHdr, c.RespBody, c.RespChunk, c.OriginCloses = s.Status, s.Header, len(s.Body), s.Chunked, s.Close
	c.Second = c.Method == "GET" && s.Status == 200 && pick(60)
	w.mu.Lock()
	w.scripts[c.ID] = s
	w.mu.Unlock()
	q := rig.Req{Method: c.Method, Target: c.Target, Header: c.ReqHeader, Body: body, Chunked: c.ReqChunk}
	return c, q
}

func c08Run(b core.Batch, r *core.Recorder) {
	rig.QuietLogs()
	w := &c08world{scripts: map[string]c08script{}}
	o := rig.StartRawOrigin(w.handler)
	defer o.Close()
	p := rig.StartProxy(rig.ProxyOpts{Backend: b.Str("backend", "memory")})
	defer p.Close()
	mode := rig.Mode(b.Str("transport", "plain"))
	n := b.Int("n", 100)
	if b.Str("only", "") == "late" {
		c08lateBodyRead(b, r, mode)
		return
	}
	for i := 0; i < n; i++ {
		c, q := c08gen(b, i, string(mode), w)
		if !r.Case(c.ID, c) {
			continue
		}
		rounds := 1
		if c.Second {
			rounds = 2
		}
		for round := 0; round < rounds; round++ {
			if round == 1 && i%2 == 0 {
				// in between: a Range request answered from the stored entry (206); it must leave the stored
				// headers and body as the origin sent them for the plain request that follows
				rq := q
				rq.Header = append(append([][2]string{}, q.Header...), [2]string{"Range", "bytes=0-3"})
				rr := rig.Do(p, mode, o.Addr, rq)
				if rr.Err == nil && rr.Status == 206 {
					r.Count("range_requests_between_store_and_hit", 1)
				}
			}
			before := o.LastSeq()
			resp := rig.Do(p, mode, o.Addr, q)
			r.Eval(1)
			got := o.Since(before)
			c08judge(r, c, q, w.scripts[c.ID], resp, got, round)
		}
		if i < 2 {
			r.Sample(c)
		}
	}
	c08range416(b, r, mode)
	c08revalFallback(b, r, mode)
	c08lateBodyRead(b, r, mode)
	c08earlyAnswer(b, r, mode)
}

// c08earlyAnswer: an origin that answers as soon as it has the request head (an upload refused with an error
// document, say) and then goes on reading the request body, as servers do to keep the connection usable. A client
// talking to it directly gets the whole response; through the proxy it must, too.
func c08earlyAnswer(b core.Batch, r *core.Recorder, mode rig.Mode) {
	ln, err := net.Listen("tcp", "127.0.0.1:0")
	if err != nil {
		panic(err)
	}
	defer ln.Close()
	type script struct {
		status int
		body   []byte
	}
	var mu sync.Mutex
	scripts := map[string]script{}
	drained := map[string]int64{}
	go func() {
		for {
			c, err := ln.Accept()
			if err != nil {
				return
			}
			go func() {
				defer c.Close()
				br := bufio.NewReader(c)
				for {
					req, err := http.ReadRequest(br)
					if err != nil {
						return
					}
					id := req.Header.Get("X-Verif-Case")
					mu.Lock()
					sc := scripts[id]
					mu.Unlock()
					fmt.Fprintf(c, "HTTP/1.1 %d %s\r\nContent-Length: %d\r\nCache-Control: no-store\r\nX-Verif-Early: %s\r\n\r\n", sc.status, http.StatusText(sc.status), len(sc.body), id)
					c.Write(sc.body)
					n, _ := io.Copy(io.Discard, req.Body)
					mu.Lock()
					drained[id] = n
					mu.Unlock()
				}
			}()
		}
	}()
	p := rig.StartProxy(rig.ProxyOpts{Backend: b.Str("backend", "memory")})
	defer p.Close()
	addr := ln.Addr().String()
	k := 0
	for rep := 0; rep < b.Int("early_reps", 3); rep++ {
		for _, rs := range []int{2000, 100000, 1000000} {
			for _, ps := range []int{100, 5000, 200000} {
				id := fmt.Sprintf("early-%s-%d", string(mode), k)
				method := []string{"POST", "PUT"}[k%2]
				status := []int{403, 413, 200, 301, 307}[(k/3)%5]
				k++
				cs := map[string]any{"id": id, "method": method, "req_body_len": rs, "resp_body_len": ps, "status": status, "mode": string(mode)}
				if !r.Case(id, cs) {
					continue
				}
				body := rig.Body(7000+k, 1, ps)
				mu.Lock()
				scripts[id] = script{status, body}
				mu.Unlock()
				q := rig.Req{Method: method, Target: "/early/" + id, Body: rig.Body(8000+k, 2, rs), Header: [][2]string{{"X-Verif-Case", id}, {"Content-Type", "application/x-verif-req"}}}
				resp := rig.Do(p, mode, addr, q)
				r.Eval(1)
				r.Count("early_answer_cases", 1)
				r.Nontrivial("early-answer", string(mode), method, rs, ps, status)
				mu.Lock()
				wit := map[string]any{"status": resp.Status, "header": resp.Header, "body_len": len(resp.Body), "err": fmt.Sprint(resp.Err), "origin_read_request_body_bytes": drained[id]}
				mu.Unlock()
				switch {
				case resp.Err != nil:
					r.Violation("C08", "C08:resp:cut-short:origin-answered-before-reading-the-request-body", fmt.Sprintf("the origin answered %d with %d body bytes before it read the %d-byte request body (which it then drained); the client got %d of them and then %v", status, ps, rs, len(resp.Body), resp.Err), cs, wit)
				case resp.Status != status || !bytes.Equal(resp.Body, body):
					r.Violation("C08", "C08:resp:wrong:origin-answered-before-reading-the-request-body", fmt.Sprintf("the origin answered %d with %d body bytes before it read the request body; the client got status %d and %d bytes (equal=%v)", status, ps, resp.Status, len(resp.Body), bytes.Equal(resp.Body, body)), cs, wit)
				}
			}
		}
	}
}

// c08lateBodyRead: requests with a body whose origin answers as soon as it has the body and then sends its
// response body in two halves, a pause in between. The upstream HTTP client reads a request body once more
// after its last byte; the hook upstream.body.read (when the tree has it) holds every read after the first of a
// body for 150 ms, so that this late read happens while the response is being relayed, which is the
// interleaving a loaded machine produces by itself now and then. The client must still get the complete response.
func c08lateBodyRead(b core.Batch, r *core.Recorder, mode rig.Mode) {
	var reads sync.Map // body -> *atomic.Int64
	var delayed atomic.Int64
	verifhook.Set("upstream.body.read", func(arg any) {
		c, _ := reads.LoadOrStore(arg, new(atomic.Int64))
		if c.(*atomic.Int64).Add(1) >= 2 && delayed.Add(1) <= 4000 {
			time.Sleep(150 * time.Millisecond)
		}
	})
	defer verifhook.Set("upstream.body.read", nil)
	type script struct {
		status int
		body   []byte
	}
	var mu sync.Mutex
	scripts := map[string]script{}
	o := rig.StartOrigin(func(w http.ResponseWriter, req *http.Request, rec *rig.OriginReq) {
		mu.Lock()
		sc := scripts[req.Header.Get("X-Verif-Case")]
		mu.Unlock()
		w.Header().Set("Content-Length", fmt.Sprint(len(sc.body)))
		w.Header().Set("Cache-Control", "no-store")
		w.WriteHeader(sc.status)
		half := len(sc.body) / 2
		w.Write(sc.body[:half])
		if f, ok := w.(http.Flusher); ok {
			f.Flush()
		}
		time.Sleep(400 * time.Millisecond)
		w.Write(sc.body[half:])
	})
	defer o.Close()
	p := rig.StartProxy(rig.ProxyOpts{Backend: b.Str("backend", "memory")})
	defer p.Close()
	methods := []string{"POST", "PUT", "DELETE", "PATCH"}
	reqSizes := []int{1, 700, 5000, 40000}
	respSizes := []int{2, 3000, 200000}
	statuses := []int{200, 410, 301, 500}
	type job struct {
		id     string
		method string
		rs, ps int
		status int
	}
	var jobs []job
	k := 0
	for round := 0; round < b.Int("late_rounds", 6); round++ {
		for _, rs := range reqSizes {
			for _, ps := range respSizes {
				m, st := methods[k%len(methods)], statuses[(k/2)%len(statuses)]
				jobs = append(jobs, job{fmt.Sprintf("late-%s-%d", string(mode), k), m, rs, ps, st})
				k++
			}
		}
	}
	var wg sync.WaitGroup
	sem := make(chan struct{}, 12)
	for _, j := range jobs {
		if !r.Case(j.id, map[string]any{"id": j.id, "method": j.method, "req_body_len": j.rs, "resp_body_len": j.ps, "status": j.status, "mode": string(mode)}) {
			continue
		}
		wg.Add(1)
		sem <- struct{}{}
		go func() {
			defer wg.Done()
			defer func() { <-sem }()
			body := rig.Body(4000+j.rs, 1, j.ps)
			mu.Lock()
			scripts[j.id] = script{j.status, body}
			mu.Unlock()
			q := rig.Req{Method: j.method, Target: "/late/" + j.id, Body: rig.Body(6000+j.ps, 2, j.rs), Header: [][2]string{{"X-Verif-Case", j.id}, {"Content-Type", "application/x-verif-req"}}}
			resp := rig.Do(p, mode, o.Addr, q)
			r.Eval(1)
			r.Count("late_body_read_cases", 1)
			r.Nontrivial("late-body-read", string(mode), j.method, j.rs, j.ps, j.status)
			cs := map[string]any{"id": j.id, "method": j.method, "req_body_len": j.rs, "resp_body_len": j.ps, "status": j.status, "mode": string(mode)}
			wit := map[string]any{"status": resp.Status, "header": resp.Header, "body_len": len(resp.Body), "err": fmt.Sprint(resp.Err), "origin_received": o.Log()}
			switch {
			case resp.Err != nil:
				r.Violation("C08", "C08:resp:cut-short:request-body-read-after-answer", fmt.Sprintf("the origin answered %d with %d body bytes in two halves; the client got %d of them and then %v", j.status, j.ps, len(resp.Body), resp.Err), cs, wit)
			case resp.Status != j.status || !bytes.Equal(resp.Body, body):
				r.Violation("C08", "C08:resp:wrong:request-body-read-after-answer", fmt.Sprintf("the origin answered %d with %d body bytes; the client got status %d and %d bytes (equal=%v)", j.status, j.ps, resp.Status, len(resp.Body), bytes.Equal(resp.Body, body)), cs, wit)
			}
		}()
	}
	wg.Wait()
	r.Count("late_body_reads_held_at_hook", delayed.Load())
	for _, rq := range o.Log() {
		id := rq.Header.Get("X-Verif-Case")
		for _, j := range jobs {
			if j.id == id && (rq.BodyLen != j.rs || rq.Method != j.method) {
				r.Violation("C08", "C08:req:body:request-body-read-after-answer", fmt.Sprintf("the client sent %s with %d body bytes, the origin received %s with %d", j.method, j.rs, rq.Method, rq.BodyLen),
					map[string]any{"id": j.id, "method": j.method, "req_body_len": j.rs, "resp_body_len": j.ps, "status": j.status, "mode": string(mode)}, map[string]any{"origin_received": rq})
			}
		}
	}
}

// c08range416: the origin answers a Range request with 416 and the same request without Range with
// 200 (storable or not); with retry_on_range_416 the proxy retries by itself. Whatever the client
// gets, status, tagged headers and body must all belong to ONE origin response.
func c08range416(b core.Batch, r *core.Recorder, mode rig.Mode) {
	full := rig.Body(77, 1, 400)
	o := rig.StartOrigin(func(w http.ResponseWriter, q *http.Request, rec *rig.OriginReq) {
		if q.Header.Get("Range") != "" {
			w.Header().Set("X-Origin-Answer", "416")
			w.Header().Set("Content-Range", "bytes */400")
			w.Header().Set("Content-Type", "text/plain")
			w.WriteHeader(416)
			w.Write([]byte("unsatisfiable"))
			return
		}
		w.Header().Set("X-Origin-Answer", "200")
		cc := "no-store"
		if strings.Contains(q.URL.Path, "storable") {
			cc = "max-age=300"
		}
		rig.ServeBody(w, 77, 1, 400, map[string]string{"Cache-Control": cc})
	})
	defer o.Close()
	for _, retry := range []bool{true, false} {
		p := rig.StartProxy(rig.ProxyOpts{Backend: b.Str("backend", "memory"), Retry416: retry})
		for i, kind := range []string{"nostore", "storable", "nostore", "storable"} {
			id := fmt.Sprintf("r416-%v-%s-%d", retry, kind, i)
			if !r.Case(id, kind) {
				continue
			}
			rng := "bytes=900-"
			if i >= 2 {
				rng = "bytes=5-9" // satisfiable for the proxy once it holds the full body
			}
			resp := rig.Do(p, mode, o.Addr, rig.Req{Target: fmt.Sprintf("/%s/%s-%d", id, kind, i), Header: [][2]string{{"Range", rng}}})
			r.Eval(1)
			r.Count("range416_cases", 1)
			r.Nontrivial("range416", retry, kind, rng, string(mode))
			cs := map[string]any{"id": id, "retry_on_range_416": retry, "origin_second_answer": kind, "range": rng}
			wit := map[string]any{"status": resp.Status, "header": resp.Header, "body_len": len(resp.Body), "err": fmt.Sprint(resp.Err)}
			if resp.Err != nil {
				r.Violation("C08", "C08:resp:not-delivered:range-416", fmt.Sprintf("no well-formed response: %v", resp.Err), cs, wit)
				continue
			}
			tag := resp.Get("X-Origin-Answer")
			okPair := false
			switch resp.Status {
			case 416:
				// relayed from the origin, or built by the proxy from the stored full body
				okPair = (tag == "416" && string(resp.Body) == "unsatisfiable") || (tag == "" && strings.HasPrefix(resp.Get("Content-Range"), "bytes */400"))
			case 200:
				okPair = tag == "200" && string(resp.Body) == string(full)
			case 206:
				okPair = tag == "200" && rng == "bytes=5-9" && string(resp.Body) == string(full[5:10])
			}
			if !okPair {
				r.Violation("C08", fmt.Sprintf("C08:resp:status-body-of-different-responses:%d-with-%s", resp.Status, tag),
					fmt.Sprintf("client received status %d with headers of the origin's %s answer and a %d-byte body: not one origin response", resp.Status, tag, len(resp.Body)), cs, wit)
			}
		}
		p.Close()
	}
}

// c08revalFallback: an entry is stored and made stale; the proxy's revalidation (its own conditional request) gets an
// answer that cannot be stored (503 / 404 / 200 no-store). Whatever the proxy does next, any further request it sends
// for this exchange stands for the CLIENT's request and must not carry validators the client never sent, and the
// client, which asked unconditionally, must receive the origin's real answer, never a 304.
func c08revalFallback(b core.Batch, r *core.Recorder, mode rig.Mode) {
	type st struct {
		stale bool
		kind  string
		reqs  []http.Header
	}
	var mu sync.Mutex
	states := map[string]*st{}
	o := rig.StartOrigin(func(w http.ResponseWriter, q *http.Request, rec *rig.OriginReq) {
		id := strings.Trim(q.URL.Path, "/")
		mu.Lock()
		s := states[id]
		var nth int
		if s != nil && s.stale {
			s.reqs = append(s.reqs, q.Header.Clone())
			nth = len(s.reqs)
		}
		mu.Unlock()
		if s == nil {
			w.WriteHeader(599)
			return
		}
		if !s.stale {
			w.Header().Set("ETag", "\"fallback-v1\"")
			w.Header().Set("Last-Modified", rig.LastMod(1))
			rig.ServeBody(w, 31, 1, 500, map[string]string{"Cache-Control": "max-age=300"})
			return
		}
		cond := q.Header.Get("If-None-Match") != "" || q.Header.Get("If-Modified-Since") != ""
		if nth > 1 && cond {
			w.Header().Set("ETag", "\"fallback-v1\"")
			w.WriteHeader(304) // what a real origin answers to a matching validator
			return
		}
		switch s.kind {
		case "503":
			w.Header().Set("X-Origin-Answer", "503")
			w.WriteHeader(503)
			w.Write([]byte("origin is busy"))
		case "404":
			w.Header().Set("X-Origin-Answer", "404")
			w.WriteHeader(404)
			w.Write([]byte("gone for now"))
		default:
			w.Header().Set("X-Origin-Answer", "200")
			rig.ServeBody(w, 31, 2, 500, map[string]string{"Cache-Control": "no-store"})
		}
	})
	defer o.Close()
	p := rig.StartProxy(rig.ProxyOpts{Backend: b.Str("backend", "memory")})
	defer p.Close()
	for i, kind := range []string{"503", "404", "nostore200", "503", "nostore200", "404"} {
		id := fmt.Sprintf("fallback-%s-%s-%d", mode, kind, i)
		if !r.Case(id, kind) {
			continue
		}
		r.Eval(1)
		mu.Lock()
		states[id] = &st{kind: kind}
		mu.Unlock()
		clientHdr := [][2]string{{"X-Client-Field", "end-to-end"}, {"Accept", "text/x-verif"}}
		if pre := rig.Do(p, mode, o.Addr, rig.Req{Target: "/" + id, Header: clientHdr}); pre.Err != nil || pre.Status != 200 {
			r.NotJudged("fallback-preparation-failed")
			continue
		}
		hr, _ := http.NewRequest("GET", "http://"+o.Addr+"/"+id, nil)
		if err := p.P.VerifCacheSetExpires(cache.MakeFromRequest(hr), time.Now().Add(-time.Hour)); err != nil {
			r.NotJudged("fallback-preparation-failed")
			continue
		}
		mu.Lock()
		states[id].stale = true
		mu.Unlock()
		resp := rig.Do(p, mode, o.Addr, rig.Req{Target: "/" + id, Header: clientHdr})
		mu.Lock()
		reqs := states[id].reqs
		mu.Unlock()
		r.Count("revalidation_fallback_cases", 1)
		r.Nontrivial("reval-fallback", kind, string(mode), i)
		cs := map[string]any{"id": id, "origin_answers_the_revalidation_with": kind}
		wit := map[string]any{"origin_received": reqs, "status": resp.Status, "header": resp.Header, "body_len": len(resp.Body), "err": fmt.Sprint(resp.Err)}
		for k, h := range reqs {
			if h.Get("X-Client-Field") != "end-to-end" {
				r.Violation("C08", "C08:req:header:single:X-Client-Field:revalidation", fmt.Sprintf("request %d of the exchange reached the origin without the client's end-to-end header", k+1), cs, wit)
			}
			if k > 0 && (h.Get("If-None-Match") != "" || h.Get("If-Modified-Since") != "") {
				r.Violation("C08", "C08:req:header-added:validators-in-the-relayed-request", fmt.Sprintf("after the revalidation was answered %s, request %d for the client's unconditional GET carried If-None-Match=%q If-Modified-Since=%q", kind, k+1, h.Get("If-None-Match"), h.Get("If-Modified-Since")), cs, wit)
			}
		}
		want := map[string]int{"503": 503, "404": 404, "nostore200": 200}[kind]
		switch {
		case resp.Err != nil:
			r.Violation("C08", "C08:resp:not-delivered:revalidation-fallback", fmt.Sprintf("no well-formed response: %v", resp.Err), cs, wit)
		case resp.Status == 304:
			r.Violation("C08", "C08:resp:status:unasked-304", "the client sent an unconditional GET and received 304 Not Modified", cs, wit)
		case resp.Status != want || resp.Get("X-Origin-Answer") != fmt.Sprint(want):
			r.Violation("C08", "C08:resp:status:revalidation-fallback", fmt.Sprintf("the origin answered %d, the client received %d (X-Origin-Answer=%q)", want, resp.Status, resp.Get("X-Origin-Answer")), cs, wit)
		case want == 200 && rig.CheckFull(resp.Body, 500).V != 2:
			r.Violation("C08", "C08:resp:body:revalidation-fallback", "the origin answered 200 no-store with version 2, the client received "+rig.CheckFull(resp.Body, 500).String(), cs, wit)
		}
	}
}

func c08judge(r *core.Recorder, c c08case, q rig.Req, s c08script, resp *rig.Resp, got []rig.OriginReq, round int) {
	cs := map[string]any{"id": c.ID, "case": c, "round": round}
	r.Nontrivial(c.Mode, c.Method, c.TClass, c.Status, namesOf(c.ReqHeader), namesOf(c.RespHdr), c.ReqBody > 0, c.RespBody > 0, c.ReqChunk, c.RespChunk, round)
	viol := func(sig, what string, wit any) {
		r.Violation("C08", "C08:"+sig, what, cs, wit)
	}
	// ---- request direction: every copy the origin received for this case must be faithful
	var mine []rig.OriginReq
	var others []rig.OriginReq
	for _, g := range got {
		if (g.Note == c.ID || g.Header.Get("X-Verif-Case") == c.ID) && !strings.HasPrefix(g.RequestURI, "/redirect-target-") {
			mine = append(mine, g)
		} else {
			others = append(others, g)
		}
	}
	r.Count("origin_requests_checked", int64(len(mine)))
	connReq := c08connListed(c.ReqHeader)
	for _, g := range mine {
		wit := map[string]any{"origin_received": g, "client_sent": c}
		if g.Method != c.Method {
			viol("req:method:"+c.Method+"->"+g.Method, fmt.Sprintf("origin received method %s, client sent %s", g.Method, c.Method), wit)
		}
		if g.RequestURI != c.Target {
			viol("req:target:"+c.TClass, fmt.Sprintf("origin received request-target %q, client sent %q", g.RequestURI, c.Target), wit)
		}
		if g.BodyLen != c.ReqBody || g.BodySHA != sha8(q.Body) {
			viol("req:body", fmt.Sprintf("origin received a %d-byte body (%s), client sent %d bytes (%s)", g.BodyLen, g.BodySHA, c.ReqBody, sha8(q.Body)), wit)
		}
		for _, name := range namesOf(c.ReqHeader) {
			sent := valuesOf(c.ReqHeader, name)
			recv := g.Header.Values(name)
			if name == "Connection" {
				// the proxy may send a Connection header of its own on its hop (e.g. "close");
				// what must not happen is the client's tokens travelling on
				for _, v := range recv {
					for _, tok := range strings.Split(v, ",") {
						if connReq[http.CanonicalHeaderKey(strings.TrimSpace(tok))] {
							viol("req:hop-by-hop-forwarded:Connection", fmt.Sprintf("the client's Connection header reached the origin: %q", recv), wit)
						}
					}
				}
				continue
			}
			if c08isHop(name, connReq) {
				if len(recv) > 0 && name != "Content-Length" {
					viol("req:hop-by-hop-forwarded:"+name, fmt.Sprintf("hop-by-hop request header %s reached the origin: %q", name, recv), wit)
				}
				continue
			}
			if strings.Join(sent, "\x00") != strings.Join(recv, "\x00") {
				viol("req:header:"+c08headerClass(name, sent), fmt.Sprintf("request header %s: client sent %q, origin received %q", name, sent, recv), wit)
			}
		}
		// nothing but known client additions may appear
		for name := range g.Header {
			if len(valuesOf(c.ReqHeader, name)) == 0 && !c08clientAdds[name] {
				viol("req:header-added:"+name, fmt.Sprintf("origin received header %s=%q that the client never sent", name, g.Header.Values(name)), wit)
			}
		}
	}
	if len(others) > 0 {
		// the proxy issued requests of its own (e.g. followed a redirect)
		r.Count("foreign_origin_requests", int64(len(others)))
	}
	// ---- response direction
	if resp.Err != nil {
		viol("resp:not-delivered:"+c08statusClass(c.Status), fmt.Sprintf("client got no well-formed response (%v) although the origin answered %d", resp.Err, c.Status), map[string]any{"origin_received": mine})
		return
	}
	wit := map[string]any{"client_received": map[string]any{"status": resp.Status, "header": resp.Header, "body_len": len(resp.Body)}, "origin_sent": c, "origin_requests": len(mine), "proxy_own_requests": others}
	if resp.Status != c.Status {
		sig := "resp:status:" + c08statusClass(c.Status)
		if c.Status >= 300 && c.Status < 400 && len(others) > 0 {
			sig = "resp:redirect-followed"
		}
		viol(sig, fmt.Sprintf("origin answered %d, client received %d", c.Status, resp.Status), wit)
		return
	}
	connResp := c08connListed(c.RespHdr)
	for _, name := range namesOf(c.RespHdr) {
		sent := valuesOf(c.RespHdr, name)
		recv := resp.Header.Values(name)
		if c08isHop(name, connResp) {
			if len(recv) > 0 {
				sig := "resp:hop-by-hop-forwarded:" + name
				if connResp[http.CanonicalHeaderKey(name)] {
					sig = "resp:hop-by-hop-forwarded:connection-nominated"
					if c.OriginCloses {
						sig += ":with-close-token"
					}
				}
				viol(sig, fmt.Sprintf("hop-by-hop response header %s reached the client: %q (origin's Connection header: %q, origin closes: %v)", name, recv, valuesOf(c.RespHdr, "Connection"), c.OriginCloses), wit)
			}
			continue
		}
		if c08proxyAppends[name] {
			// the proxy may append values of its own; the origin's must all be there, in order, ahead of them
			ok := len(recv) >= len(sent)
			for k := 0; ok && k < len(sent); k++ {
				ok = recv[k] == sent[k]
			}
			if !ok {
				joined := strings.Join(recv, ", ") // or folded into one line, still in order and first
				ok = strings.HasPrefix(joined, strings.Join(sent, ", "))
			}
			if !ok {
				viol("resp:header-values-replaced:"+name+fmt.Sprintf(":%s", map[bool]string{true: "from-store", false: "first"}[round > 0]), fmt.Sprintf("response header %s: the origin (behind another intermediary) sent %q, the client received %q", name, sent, recv), wit)
			}
			continue
		}
		if c08proxyOwnedResp[name] {
			continue
		}
		if strings.Join(sent, "\x00") != strings.Join(recv, "\x00") {
			kind := "changed"
			if len(recv) == 0 {
				kind = "missing"
			} else if len(recv) < len(sent) {
				kind = "values-dropped"
			}
			viol("resp:header-"+kind+":"+c08headerClass(name, sent)+fmt.Sprintf(":%s", map[bool]string{true: "from-store", false: "first"}[round > 0]), fmt.Sprintf("response header %s: origin sent %q, client received %q", name, sent, recv), wit)
		}
	}
	wantBody := s.Body
	if c.Method == "HEAD" || c.Status == 204 {
		wantBody = nil
	}
	if sha8(resp.Body) != sha8(wantBody) || len(resp.Body) != len(wantBody) {
		viol("resp:body:"+c08statusClass(c.Status), fmt.Sprintf("origin sent a %d-byte body, client received %d bytes (%s)", len(wantBody), len(resp.Body), rig.CheckBody(resp.Body, 0)), wit)
	}
	if round > 0 {
		r.Count("answers_from_store_checked", 1)
	}
}

func c08Plan(tier string, seed int64) []core.Batch {
	n, late, early := 220, 6, 3
	if tier == "thorough" {
		n, late, early = 15000, 60, 20
	}
	var bs []core.Batch
	for _, tr := range []string{"plain", "tunnel"} {
		for _, be := range []string{"memory", "file"} {
			bs = append(bs, core.Batch{Name: tr + "-" + be, TimeoutS: 1200, Args: map[string]any{"transport": tr, "backend": be, "n": n, "late_rounds": late, "early_reps": early}})
		}
	}
	// The same part once more with every write system call of the child held for 3 ms after it has completed
	// (strace as a delay injector): the thread that has just written the last request-body bytes upstream is
	// late for whatever it does next, as it is on a loaded machine when the woken reader takes its CPU. This
	// needs no hook in the tree. Left out where strace cannot trace (no ptrace permission).
	if c08straceWorks() {
		for _, tr := range []string{"plain", "tunnel"} {
			bs = append(bs, core.Batch{Name: "late-" + tr + "-write-exit-delayed", TimeoutS: 600,
				Wrap: []string{"strace", "-f", "-qq", "-o", "/dev/null", "-e", "trace=write", "-e", "inject=write:delay_exit=3000"},
				Args: map[string]any{"transport": tr, "backend": "memory", "only": "late", "late_rounds": late / 3}})
		}
	}
	return bs
}

func c08straceWorks() bool {
	path, err := exec.LookPath("strace")
	if err != nil {
		return false
	}
	return exec.Command(path, "-f", "-qq", "-o", "/dev/null", "-e", "trace=write", "-e", "inject=write:delay_exit=1", "true").Run() == nil
}

func init() {
	core.Register(&core.Monitor{
		ID:    "C08",
		Level: "exploration",
		Rule: "seeded generation of exchanges: method in {GET,HEAD,POST,PUT,PATCH,DELETE,OPTIONS} x 15 request-target classes (pct-encoded slash/pipe/space, semicolon, empty query, dot-segments, double slash, trailing slash, ...) x request header options (multi-valued, odd casing, Cookie, Authorization, Connection-nominated, Proxy-*, TE, end-to-end names that merely begin like hop-by-hop ones: Proxy-Trace-Id, Upgrade-Insecure-Requests, Connection-Id, ...) x request bodies (none/sized/chunked/70k-1MiB) " +
			"x origin script: status from 25 codes incl. 3xx with Location, multi-valued Set-Cookie/Link/Vary/Warning, Connection-nominated and hop-by-hop headers, validators, cache directives, bodies (none/sized/chunked/200k); 60% of storable GETs are requested a second time so that the answer from the store is checked too; plain and tunnel transport, both backends; origins behind another intermediary (their Via / Cache-Status / X-Cache values must stay in front of the values this proxy appends); a stale entry whose revalidation is answered 503 / 404 / 200 no-store (any further request of that exchange must be a faithful copy of the unconditional client request, and the client must get the real answer, never a 304); body-carrying requests (POST/PUT/DELETE/PATCH, 1..40000 bytes) to an origin that pauses in the middle of its response body while the hook upstream.body.read holds the upstream client's reads of the request body after the first (the after-the-end read then happens while the response is being relayed), and once more in a child whose write system calls are held 3 ms after completion by strace's delay injector (batches late-*-write-exit-delayed; absent where strace cannot trace); uploads of 2 kB..1 MB to an origin that answers 403/413/200/301/307 with 100..200000 bytes as soon as it has the request head and then drains the request body. " +
			"Every copy of the request the origin logs and the response the client parses are compared field by field. Non-trivial/distinct = distinct (transport, method, target class, status, request/response header-name sets, body shapes, round).",
		Assumptions: []string{"headers the proxy's HTTP client adds when absent (User-Agent, Accept-Encoding) and framing (Content-Length/Transfer-Encoding) are tolerated on the request side",
			"Age, Accept-Ranges, Date and framing headers are proxy-owned on the response side; to Via, X-Cache and Cache-Status the proxy may append, the values an upstream intermediary wrote must stay in front", "conditional request headers and Range are not generated here (C06/C07 cover them)"},
		Plan:     c08Plan,
		Run:      c08Run,
		Parallel: 4,
		Floors:   map[string]map[string]int64{"quick": {"origin_requests_checked": 300, "answers_from_store_checked": 20}, "thorough": {"origin_requests_checked": 40000, "answers_from_store_checked": 1500}},
	})
}
