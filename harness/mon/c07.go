package mon

// C07 — Range answers are exact slices or explicit refusals.
//
// Function level: every generated Range string x representation size goes through the real
// parser + SliceSize under recover and is judged against an independent RFC 9110 reference
// (arbitrary precision). End to end: representatives of every (reference class,
// implementation behaviour) pair plus a seeded sample go through the real proxy against an
// origin that ignores Range, so that the proxy itself builds the 206 / 416 / 200.

import (
	"fmt"
	"math/big"
	"net/http"
	"regexp"
	"runtime/debug"
	"sort"
	"strconv"
	"strings"
	"time"

	"reservoir/proxy/headers"
	"verifharness/core"
	"verifharness/rig"
)

// ---- reference ------------------------------------------------------------------------

type c07ref struct {
	Class  string // single | unsat | invalid | multi | malformed
	Lo, Hi int64  // for single / lenient
	Over   bool   // some number exceeds int64
}

var (
	reRangeSet = regexp.MustCompile(`^(?i:bytes)=(.*)$`)
	reIntRange = regexp.MustCompile(`^([0-9]+)-([0-9]*)$`)
	reSuffix   = regexp.MustCompile(`^-([0-9]+)$`)
)

func c07reference(s string, size int64) c07ref {
	// Only well-formed specifiers carry a meaning the oracle insists on. Whitespace-tolerant or
	// otherwise lenient readings of malformed strings are neither demanded nor forbidden.
	return c07refStrict(s, size)
}

func c07refStrict(s string, size int64) c07ref {
	m := reRangeSet.FindStringSubmatch(s)
	if m == nil {
		return c07ref{Class: "malformed"}
	}
	// range-set = 1#range-spec: elements separated by OWS "," OWS; empty elements are tolerated by
	// recipients, but there is no whitespace before the first or after the last element.
	var specs []string
	parts := strings.Split(m[1], ",")
	for i, p := range parts {
		if i > 0 {
			p = strings.TrimLeft(p, " \t")
		}
		if i < len(parts)-1 {
			p = strings.TrimRight(p, " \t")
		}
		if p != "" {
			specs = append(specs, p)
		}
	}
	if len(specs) == 0 {
		return c07ref{Class: "malformed"}
	}
	for _, sp := range specs {
		if !reIntRange.MatchString(sp) && !reSuffix.MatchString(sp) {
			return c07ref{Class: "malformed"}
		}
	}
	if len(specs) > 1 {
		return c07ref{Class: "multi"}
	}
	sp := specs[0]
	sz := big.NewInt(size)
	maxI := big.NewInt(0).SetUint64(1<<63 - 1)
	if mm := reSuffix.FindStringSubmatch(sp); mm != nil {
		n, _ := new(big.Int).SetString(mm[1], 10)
		over := n.Cmp(maxI) > 0
		if n.Sign() == 0 || size == 0 {
			return c07ref{Class: "unsat", Over: over}
		}
		lo := new(big.Int).Sub(sz, n)
		if lo.Sign() < 0 {
			lo = big.NewInt(0)
		}
		return c07ref{Class: "single", Lo: lo.Int64(), Hi: size - 1, Over: over}
	}
	mm := reIntRange.FindStringSubmatch(sp)
	first, _ := new(big.Int).SetString(mm[1], 10)
	over := first.Cmp(maxI) > 0
	var last *big.Int
	if mm[2] != "" {
		last, _ = new(big.Int).SetString(mm[2], 10)
		if last.Cmp(maxI) > 0 {
			over = true
		}
		if last.Cmp(first) < 0 {
			return c07ref{Class: "invalid", Over: over}
		}
	}
	if first.Cmp(sz) >= 0 {
		return c07ref{Class: "unsat", Over: over}
	}
	hi := size - 1
	if last != nil && last.Cmp(big.NewInt(hi)) < 0 {
		hi = last.Int64()
	}
	return c07ref{Class: "single", Lo: first.Int64(), Hi: hi, Over: over}
}

// ---- implementation under recover -------------------------------------------------------

type c07impl struct {
	Kind   string // ignored | refused | slice | panic
	Lo, Hi int64
	Panic  string
	Frame  string
}

func c07callImpl(s string, size int64) (out c07impl) {
	defer func() {
		if e := recover(); e != nil {
			out = c07impl{Kind: "panic", Panic: fmt.Sprint(e), Frame: core.FirstReservoirFrame(string(debug.Stack()))}
		}
	}()
	hd := headers.ParseHeaderDirective(http.Header{"Range": []string{s}})
	if !hd.Range.IsPresent() {
		return c07impl{Kind: "ignored"}
	}
	lo, hi, err := hd.Range.Value().SliceSize(size)
	if err != nil {
		return c07impl{Kind: "refused"}
	}
	return c07impl{Kind: "slice", Lo: lo, Hi: hi}
}

// c07verdict returns "" when the implementation outcome is acceptable for the reference class.
func c07verdict(ref c07ref, im c07impl, size int64) string {
	switch im.Kind {
	case "panic":
		return "dropped:panic:" + im.Frame + ":" + abortKindOf(im.Panic)
	case "ignored", "refused":
		return ""
	}
	// a slice is announced: it must always be inside the representation
	if im.Lo < 0 || im.Hi < im.Lo || im.Hi >= size {
		return "slice-outside-representation:" + ref.Class + overTag(ref)
	}
	switch ref.Class {
	case "single":
		if im.Lo == ref.Lo && im.Hi == ref.Hi {
			return ""
		}
		return "wrong-slice:" + ref.Class + overTag(ref)
	case "malformed":
		return "" // no defined meaning: any in-bounds slice or refusal is acceptable
	default: // unsat, invalid, multi: must be refused
		return "wrong-slice:" + ref.Class + overTag(ref)
	}
}

func overTag(r c07ref) string {
	if r.Over {
		return ":overflow"
	}
	return ""
}

func abortKindOf(p string) string {
	for _, k := range []string{"index out of range", "slice bounds out of range", "nil pointer", "divide by zero"} {
		if strings.Contains(p, k) {
			return strings.ReplaceAll(k, " ", "-")
		}
	}
	return "other"
}

// ---- generation ---------------------------------------------------------------------------

func c07tokens(size int64) []string {
	return []string{"-", ",", " ", "0", "1", "9", "10", strconv.FormatInt(size-1, 10), strconv.FormatInt(size, 10),
		"2147483647", "2147483648", "4294967295", "4294967296",
		"9223372036854775807", "9223372036854775808", "18446744073709551615", "18446744073709551616", "1000000000000000000000000000000", "x"}
}

var c07prefixes = []string{"bytes=", "Bytes=", "BYTES=", "bytes =", "bytes==", " bytes=", "byte=", "bytes", "", "=", "items="}
var c07sizes = []int64{0, 1, 2, 17, 1000, 70000}

type c07group struct {
	Ref, Impl string
	Example   string
	Size      int64
	N         int
}

func c07Run(b core.Batch, r *core.Recorder) {
	switch b.Str("mode", "func") {
	case "func":
		c07RunFunc(b, r)
	case "e2e":
		c07RunE2E(b, r)
	}
}

func c07RunFunc(b core.Batch, r *core.Recorder) {
	depth := b.Int("depth", 4)
	part, parts := b.Int("part", 0), b.Int("parts", 1)
	groups := map[string]*c07group{}
	judge := func(s string, size int64) {
		r.Eval(1)
		ref := c07reference(s, size)
		im := c07callImpl(s, size)
		gk := ref.Class + overTag(ref) + "/" + im.Kind
		g := groups[gk]
		if g == nil {
			g = &c07group{Ref: ref.Class + overTag(ref), Impl: im.Kind, Example: s, Size: size}
			groups[gk] = g
		}
		g.N++
		if ref.Class != "malformed" {
			r.Nontrivial(s, size)
		}
		if v := c07verdict(ref, im, size); v != "" {
			r.Violation("C07", "C07:"+v, fmt.Sprintf("Range %q on a %d-byte representation: reference says %+v, implementation %+v", s, size, ref, im),
				map[string]any{"id": "f:" + s + "@" + fmt.Sprint(size), "range": s, "size": size}, map[string]any{"reference": ref, "implementation": im})
		}
	}
	idx := 0
	for _, size := range c07sizes {
		toks := c07tokens(size)
		for _, pre := range c07prefixes {
			d := depth
			if pre != "bytes=" {
				d = min(depth, 2)
			}
			seq := make([]string, 0, d)
			var rec func()
			rec = func() {
				idx++
				if idx%parts == part {
					s := pre + strings.Join(seq, "")
					if r.Only() == "" || r.Only() == "f:"+s+"@"+fmt.Sprint(size) {
						judge(s, size)
					}
				}
				if len(seq) == d {
					return
				}
				for _, t := range toks {
					seq = append(seq, t)
					rec()
					seq = seq[:len(seq)-1]
				}
			}
			rec()
		}
	}
	// seeded random: structured mutations
	rng := b.Rand("c07-func")
	n := b.Int("random", 20000)
	for i := 0; i < n; i++ {
		size := c07sizes[rng.IntN(len(c07sizes))]
		toks := c07tokens(size)
		var sb strings.Builder
		sb.WriteString(c07prefixes[rng.IntN(3)])
		for k := 0; k < 1+rng.IntN(9); k++ {
			if rng.IntN(5) == 0 {
				sb.WriteString(strconv.FormatInt(rng.Int64N(size+3), 10))
			} else {
				sb.WriteString(toks[rng.IntN(len(toks))])
			}
		}
		judge(sb.String(), size)
	}
	var gl []c07group
	for _, g := range groups {
		gl = append(gl, *g)
	}
	sort.Slice(gl, func(i, j int) bool { return gl[i].Ref+gl[i].Impl < gl[j].Ref+gl[j].Impl })
	r.Note("outcome_groups", gl)
	r.Count("outcome_groups", int64(len(gl)))
	r.Sample(map[string]any{"mode": "func", "depth": depth, "groups": gl})
}

// ---- end to end ------------------------------------------------------------------------------

type c07e2eCase struct {
	ID      string `json:"id"`
	Range   string `json:"range"`
	Size    int64  `json:"size"`
	IfRange string `json:"if_range"`
	IfKind  string `json:"if_range_kind"`
	Retry   bool   `json:"retry_on_invalid_range"`
	Mode    string `json:"transport"`
	Backend string `json:"backend"`
}

var reContentRange = regexp.MustCompile(`^bytes (\d+)-(\d+)/(\d+)$`)
var reContentRangeUnsat = regexp.MustCompile(`^bytes \*/(\d+)$`)

func c07RunE2E(b core.Batch, r *core.Recorder) {
	rig.QuietLogs()
	backend := b.Str("backend", "memory")
	retry := b.Bool("retry", false)
	mode := rig.Mode(b.Str("transport", "plain"))
	// origin: /s<size> -> body(res=size idx, v=1, size), ignores Range
	// "zero_lifetime": stored entries are stale the moment they are stored (forced default lifetime of 1 ns), and
	// the origin answers a matching If-None-Match with 304: every Range request after the first is built from an
	// entry that has just been revalidated
	zero := b.Bool("zero_lifetime", false)
	o := rig.StartOrigin(func(w http.ResponseWriter, q *http.Request, rec *rig.OriginReq) {
		var size int
		fmt.Sscanf(strings.TrimPrefix(q.URL.Path, "/s"), "%d", &size)
		if zero && q.Header.Get("If-None-Match") == rig.ETag(size%65536, 1) {
			w.Header().Set("ETag", rig.ETag(size%65536, 1))
			w.WriteHeader(304)
			return
		}
		hd := map[string]string{"Cache-Control": "max-age=600"}
		if c07noLastModified(int64(size)) {
			hd["Last-Modified"] = "" // this representation comes with an entity tag only
		}
		rig.ServeBody(w, size%65536, 1, size, hd)
	})
	defer o.Close()
	opts := rig.ProxyOpts{Backend: backend, RetryInvalid: retry}
	if zero {
		opts.ForceDefault, opts.DefaultMaxAge = true, time.Nanosecond
	}
	p := rig.StartProxy(opts)
	defer p.Close()

	// representative Range strings: one per (reference class, impl behaviour) group per size + fixed list + random
	type rs struct {
		s    string
		size int64
	}
	var inputs []rs
	seen := map[string]bool{}
	addIn := func(s string, size int64) {
		k := s + "@" + fmt.Sprint(size)
		if !seen[k] {
			seen[k] = true
			inputs = append(inputs, rs{s, size})
		}
	}
	for _, size := range c07sizes {
		toks := c07tokens(size)
		grp := map[string]bool{}
		var seq []string
		var rec func()
		rec = func() {
			s := "bytes=" + strings.Join(seq, "")
			ref := c07reference(s, size)
			im := c07callImplSafe(s, size)
			gk := ref.Class + overTag(ref) + "/" + im.Kind + fmt.Sprint(len(seq))
			if !grp[gk] {
				grp[gk] = true
				addIn(s, size)
			}
			if len(seq) == 3 {
				return
			}
			for _, t := range toks {
				seq = append(seq, t)
				rec()
				seq = seq[:len(seq)-1]
			}
		}
		rec()
		for _, s := range []string{"bytes=0-0", "bytes=-1", "bytes=0-", "bytes=1-", "bytes=", "bytes=5", "bytes=-", "bytes=--1", "bytes=0-0,1-1", "bytes=0-18446744073709551615", "bytes=18446744073709551616-5", "bytes=18446744073709551611-", "bytes=-18446744073709551616", "bytes=-9223372036854775808", "bytes=9223372036854775807-", "bytes=0-9223372036854775807", "bytes= 0-1", "bytes=0 - 1", "items=0-1", "bytes=0-1;x", "bytes=1-0", "bytes=a-b"} {
			addIn(s, size)
		}
	}
	rng := b.Rand("c07-e2e")
	for i := 0; i < b.Int("random", 100); i++ {
		size := c07sizes[rng.IntN(len(c07sizes))]
		switch rng.IntN(4) {
		case 0:
			addIn(fmt.Sprintf("bytes=%d-%d", rng.Int64N(size+2), rng.Int64N(size+2)), size)
		case 1:
			addIn(fmt.Sprintf("bytes=%d-", rng.Int64N(size+2)), size)
		case 2:
			addIn(fmt.Sprintf("bytes=-%d", rng.Int64N(size+2)), size)
		default:
			toks := c07tokens(size)
			s := "bytes="
			for k := 0; k < 1+rng.IntN(6); k++ {
				s += toks[rng.IntN(len(toks))]
			}
			addIn(s, size)
		}
	}
	ifKinds := []string{"absent", "absent", "match-etag", "other-etag", "weak-etag", "date-equal", "date-earlier", "date-later", "garbage", "empty", "blank"}
	for i, in := range inputs {
		ifk := ifKinds[i%len(ifKinds)]
		c := c07e2eCase{ID: fmt.Sprintf("e%d", i), Range: in.s, Size: in.size, IfKind: ifk, Retry: retry, Mode: string(mode), Backend: backend}
		res := int(in.size) % 65536
		switch ifk {
		case "match-etag":
			c.IfRange = rig.ETag(res, 1)
		case "other-etag":
			c.IfRange = rig.ETag(res, 2)
		case "weak-etag":
			c.IfRange = "W/" + rig.ETag(res, 1)
		case "date-equal":
			c.IfRange = rig.LastMod(1)
		case "date-earlier":
			c.IfRange = rig.LastMod(0)
		case "date-later":
			c.IfRange = rig.LastMod(5)
		case "garbage":
			c.IfRange = "%%%"
		case "blank":
			c.IfRange = " \t "
		}
		if !r.Case(c.ID, c) {
			continue
		}
		c07e2eOne(r, p, o, mode, c)
		if i < 2 {
			r.Sample(c)
		}
	}
	for _, pn := range p.Panics() {
		kind, frame := core.ClassifyAbort(pn)
		r.Count("server_panics", 1)
		_ = kind
		_ = frame
	}
}

// c07noLastModified: representations of these sizes are served without a Last-Modified header.
func c07noLastModified(size int64) bool { return size == 17 || size == 1000 }

func c07callImplSafe(s string, size int64) c07impl { return c07callImpl(s, size) }

func c07e2eOne(r *core.Recorder, p *rig.ProxyRig, o *rig.Origin, mode rig.Mode, c c07e2eCase) {
	r.Eval(1)
	q := rig.Req{Target: fmt.Sprintf("/s%d", c.Size), Header: [][2]string{{"Range", c.Range}}}
	if c.IfRange != "" || c.IfKind == "empty" {
		// "empty" / "blank": the field is present with no value; only "answered, and exactly, if at all" is demanded
		q.Header = append(q.Header, [2]string{"If-Range", c.IfRange})
	}
	npan := len(p.Panics())
	resp := rig.Do(p, mode, o.Addr, q)
	ref := c07reference(c.Range, c.Size)
	full := rig.Body(int(c.Size)%65536, 1, int(c.Size))
	cs := map[string]any{"id": c.ID, "case": c}
	wit := map[string]any{"reference": ref, "status": resp.Status, "header": resp.Header, "body_len": len(resp.Body), "err": fmt.Sprint(resp.Err)}
	r.Nontrivial(c.Range, c.Size, c.IfKind, c.Retry, c.Mode, c.Backend)
	if resp.Err != nil {
		sig := "C07:e2e:dropped:" + ref.Class + overTag(ref)
		if pans := p.Panics(); len(pans) > npan {
			kind, frame := core.ClassifyAbort(pans[len(pans)-1])
			sig = "C07:e2e:dropped:panic:" + frame + ":" + abortKindOf(kind)
			if strings.Contains(kind, "invalid WriteHeader code") {
				sig = "C07:e2e:dropped:panic:invalid-status-0"
			}
			wit["panic"] = core.Trunc(pans[len(pans)-1], 3000)
		}
		if c.Retry {
			sig += ":retry"
		}
		r.Violation("C07", sig, fmt.Sprintf("Range %q (size %d): the client got no well-formed response: %v", c.Range, c.Size, resp.Err), cs, wit)
		return
	}
	mustBeFull := c.IfKind == "other-etag" || c.IfKind == "weak-etag" || c.IfKind == "date-earlier" || c.IfKind == "garbage"
	if c07noLastModified(c.Size) && strings.HasPrefix(c.IfKind, "date-") {
		// the origin never gave this representation a Last-Modified: no date from years ago can be its validator
		mustBeFull = true
	}
	switch resp.Status {
	case 206:
		r.Count("e2e_206", 1)
		m := reContentRange.FindStringSubmatch(resp.Get("Content-Range"))
		if m == nil {
			r.Violation("C07", "C07:e2e:206-bad-content-range", fmt.Sprintf("206 with Content-Range %q", resp.Get("Content-Range")), cs, wit)
			return
		}
		a, _ := strconv.ParseInt(m[1], 10, 64)
		bb, _ := strconv.ParseInt(m[2], 10, 64)
		tot, _ := strconv.ParseInt(m[3], 10, 64)
		switch {
		case tot != c.Size || a < 0 || bb < a || bb >= c.Size:
			r.Violation("C07", "C07:e2e:206-range-outside-representation:"+ref.Class+overTag(ref), fmt.Sprintf("206 Content-Range %s for a %d-byte representation", m[0], c.Size), cs, wit)
		case resp.Get("Content-Length") != strconv.FormatInt(bb-a+1, 10) || int64(len(resp.Body)) != bb-a+1:
			r.Violation("C07", "C07:e2e:206-length-mismatch", fmt.Sprintf("206 %s with Content-Length %q and %d body bytes", m[0], resp.Get("Content-Length"), len(resp.Body)), cs, wit)
		case string(resp.Body) != string(full[a:bb+1]):
			r.Violation("C07", "C07:e2e:206-wrong-bytes", fmt.Sprintf("206 %s carries other bytes than that slice (%s)", m[0], rig.CheckBody(resp.Body, int(a))), cs, wit)
		}
		if mustBeFull {
			r.Violation("C07", "C07:e2e:if-range-mismatch-served-206:"+c.IfKind, fmt.Sprintf("If-Range %q (%s) does not match the stored validator, yet a 206 was served", c.IfRange, c.IfKind), cs, wit)
		}
		switch ref.Class {
		case "single":
			if a != ref.Lo || bb != ref.Hi {
				r.Violation("C07", "C07:e2e:wrong-slice:"+ref.Class+overTag(ref), fmt.Sprintf("Range %q asks for %d-%d, served %d-%d", c.Range, ref.Lo, ref.Hi, a, bb), cs, wit)
			}
		case "malformed":
		default:
			r.Violation("C07", "C07:e2e:wrong-slice:"+ref.Class+overTag(ref), fmt.Sprintf("Range %q is %s, yet %d-%d was served", c.Range, ref.Class, a, bb), cs, wit)
		}
	case 416:
		r.Count("e2e_416", 1)
		m := reContentRangeUnsat.FindStringSubmatch(resp.Get("Content-Range"))
		if m == nil || m[1] != strconv.FormatInt(c.Size, 10) {
			r.Violation("C07", "C07:e2e:416-without-size", fmt.Sprintf("416 with Content-Range %q, representation has %d bytes", resp.Get("Content-Range"), c.Size), cs, wit)
		}
	case 200:
		r.Count("e2e_200", 1)
		if string(resp.Body) != string(full) {
			r.Violation("C07", "C07:e2e:200-not-the-full-body", fmt.Sprintf("200 in answer to Range %q carries %d of %d bytes (%s)", c.Range, len(resp.Body), c.Size, rig.CheckFull(resp.Body, int(c.Size))), cs, wit)
		}
		if resp.Get("Content-Range") != "" {
			r.Violation("C07", "C07:e2e:200-with-content-range", "full 200 carries a Content-Range", cs, wit)
		}
	default:
		r.Violation("C07", fmt.Sprintf("C07:e2e:unexpected-status-%d:%s", resp.Status, ref.Class+overTag(ref)), fmt.Sprintf("Range %q (size %d) answered with status %d", c.Range, c.Size, resp.Status), cs, wit)
	}
}

func c07Plan(tier string, seed int64) []core.Batch {
	var bs []core.Batch
	depth, parts, rnd, ernd := 4, 8, 20000, 150
	if tier == "thorough" {
		depth, parts, rnd, ernd = 5, 16, 2000000, 12000
	}
	for p := 0; p < parts; p++ {
		bs = append(bs, core.Batch{Name: fmt.Sprintf("func-p%d", p), TimeoutS: 1200, Args: map[string]any{"mode": "func", "depth": depth, "part": p, "parts": parts, "random": rnd}})
	}
	for _, be := range []string{"memory", "file"} {
		for _, retry := range []bool{false, true} {
			for _, tr := range []string{"plain", "tunnel"} {
				bs = append(bs, core.Batch{Name: fmt.Sprintf("e2e-%s-retry%v-%s", be, retry, tr), TimeoutS: 1200,
					Args: map[string]any{"mode": "e2e", "backend": be, "retry": retry, "transport": tr, "random": ernd}})
			}
			bs = append(bs, core.Batch{Name: fmt.Sprintf("e2e-%s-retry%v-zero-lifetime", be, retry), TimeoutS: 1200,
				Args: map[string]any{"mode": "e2e", "backend": be, "retry": retry, "transport": "plain", "random": ernd / 3, "zero_lifetime": true}})
		}
	}
	return bs
}

func init() {
	core.Register(&core.Monitor{
		ID:    "C07",
		Level: "exploration",
		Rule: "function level: every string prefix+tokens with prefix in 11 unit forms and up to <depth> tokens from {-, ',', SP, 0, 1, 9, 10, size-1, size, 2^31-1, 2^31, 2^32-1, 2^32, 2^63-1, 2^63, 2^64-1, 2^64, 10^30, x} for each representation size in {0,1,2,17,1000,70000} (bounded-exhaustive) plus seeded random strings, through the real header parser + SliceSize under recover, judged against an arbitrary-precision RFC 9110 reference; " +
			"end to end: one representative per (reference class, implementation behaviour, length) group and size, 22 fixed boundary strings per size and a seeded sample, crossed round-robin with 11 If-Range forms (incl. a present but empty / blank field), both retry_on_invalid_range settings, both backends and transports, through the real proxy against an origin that ignores Range (two of the sizes are served without Last-Modified: no date-form If-Range can match them; also with entries that are stale the moment they are stored and an origin answering If-None-Match with 304, so that slices are built from just-revalidated entries); the 206/416/200 the client parses is checked byte for byte. Non-trivial = distinct (string,size) that is not 'malformed' (function level) / distinct case (e2e).",
		Assumptions: []string{"a Range string that is not well-formed even after removing SP/HTAB has no defined meaning: any in-bounds slice, 416 or full 200 is accepted for it",
			"a well-formed satisfiable range may be refused (416 / 200) but if a 206 is served it must be exactly the RFC 9110 slice", "If-Range with a date later than Last-Modified is not judged"},
		Plan:     c07Plan,
		Run:      c07Run,
		Parallel: 8,
		Floors:   map[string]map[string]int64{"quick": {"e2e_206": 150, "e2e_416": 50, "e2e_200": 100}, "thorough": {"e2e_206": 1500, "e2e_416": 500, "e2e_200": 1000}},
	})
}
