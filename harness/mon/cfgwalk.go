package mon

// Shared helpers for the configuration monitors (C17, C18): a reflect walk over every
// ConfigProp of a Config (effective values via Read), document generation, and the aux
// process entry points that load / override / update a configuration in a FRESH process
// (the config package fixes var/config.json relative to the working directory at init).

import (
	"encoding/json"
	"fmt"
	"io"
	"log"
	"log/slog"
	"os"
	"os/exec"
	"reflect"
	"sort"
	"strings"
	"time"

	"reservoir/config"
	"reservoir/utils/bytesize"
	"reservoir/utils/duration"
	"verifharness/core"
)

// cfgWalk returns path -> effective value (normalised to JSON-friendly scalars) of every property.
func cfgWalk(cfg *config.Config) map[string]any {
	out := map[string]any{}
	var rec func(v reflect.Value, prefix string)
	rec = func(v reflect.Value, prefix string) {
		t := v.Type()
		for i := 0; i < v.NumField(); i++ {
			f := v.Field(i)
			tag := t.Field(i).Tag.Get("json")
			name := prefix + tag
			if f.Kind() != reflect.Struct || !f.CanAddr() {
				continue
			}
			if m := f.Addr().MethodByName("Read"); m.IsValid() {
				out[name] = cfgNorm(m.Call(nil)[0].Interface())
				continue
			}
			rec(f, name+".")
		}
	}
	rec(reflect.ValueOf(cfg).Elem(), "")
	return out
}

func cfgNorm(v any) any {
	switch x := v.(type) {
	case bytesize.ByteSize:
		return int64(x)
	case duration.Duration:
		return int64(x)
	case slog.Level:
		return int64(x)
	case config.CacheType:
		return string(x)
	case int:
		return int64(x)
	}
	return v
}

// cfgSubscribeAll registers a recorder on every property; the returned func reports how many
// notifications each property has delivered so far.
func cfgSubscribeAll(cfg *config.Config, onEvent func(path string, value any)) {
	var rec func(v reflect.Value, prefix string)
	rec = func(v reflect.Value, prefix string) {
		t := v.Type()
		for i := 0; i < v.NumField(); i++ {
			f := v.Field(i)
			tag := t.Field(i).Tag.Get("json")
			name := prefix + tag
			if f.Kind() != reflect.Struct || !f.CanAddr() {
				continue
			}
			if m := f.Addr().MethodByName("OnChange"); m.IsValid() {
				fnType := m.Type().In(0)
				cb := reflect.MakeFunc(fnType, func(args []reflect.Value) []reflect.Value {
					onEvent(name, cfgNorm(args[0].Interface()))
					return nil
				})
				m.Call([]reflect.Value{cb})
				continue
			}
			rec(f, name+".")
		}
	}
	rec(reflect.ValueOf(cfg).Elem(), "")
}

// cfgFileValues parses the persisted file into path -> raw JSON scalar (string/number/bool).
func cfgFileValues(path string) (map[string]any, []byte, error) {
	b, err := os.ReadFile(path)
	if err != nil {
		return nil, nil, err
	}
	var m map[string]any
	if err := json.Unmarshal(b, &m); err != nil {
		return nil, b, err
	}
	out := map[string]any{}
	var rec func(m map[string]any, prefix string)
	rec = func(m map[string]any, prefix string) {
		for k, v := range m {
			if mm, ok := v.(map[string]any); ok {
				rec(mm, prefix+k+".")
			} else {
				out[prefix+k] = v
			}
		}
	}
	rec(m, "")
	return out, b, nil
}

// cfgNest turns {"cache.max_cache_size": v} into the nested document the API takes.
func cfgNest(flat map[string]any) map[string]any {
	out := map[string]any{}
	keys := make([]string, 0, len(flat))
	for k := range flat {
		keys = append(keys, k)
	}
	sort.Strings(keys)
	for _, k := range keys {
		parts := strings.Split(k, ".")
		cur := out
		for i, p := range parts {
			if i == len(parts)-1 {
				cur[p] = flat[k]
				break
			}
			next, ok := cur[p].(map[string]any)
			if !ok {
				next = map[string]any{}
				cur[p] = next
			}
			cur = next
		}
	}
	return out
}

func cfgDiff(a, b map[string]any) []string {
	var d []string
	for k, v := range a {
		if fmt.Sprint(b[k]) != fmt.Sprint(v) {
			d = append(d, fmt.Sprintf("%s: %v != %v", k, v, b[k]))
		}
	}
	for k := range b {
		if _, ok := a[k]; !ok {
			d = append(d, fmt.Sprintf("%s: <absent> != %v", k, b[k]))
		}
	}
	sort.Strings(d)
	return d
}

// ---- aux: load in a fresh process ------------------------------------------------------------

// c17-load: LoadOrDefault("var/config.json") in a fresh process; prints the effective values.
func auxCfgLoad(args []string) {
	cfg, err := config.LoadOrDefault("var/config.json")
	res := map[string]any{}
	if err != nil {
		res["error"] = err.Error()
	} else {
		res["values"] = cfgWalk(cfg)
	}
	json.NewEncoder(os.Stdout).Encode(res)
}

func init() {
	core.RegisterAux("cfg-load", auxCfgLoad)
	_ = time.Now
}

// execCommand is exec.Command (kept in one place so the monitors need not import os/exec each).
var execCommand = exec.Command

func newLogger(w io.Writer) *log.Logger { return log.New(w, "", 0) }
