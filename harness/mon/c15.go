package mon

// C15 — shared proxy state is free of data races.
//
// The concurrent workloads of the other monitors (C01 cache histories, C05 bursts, C12
// concurrent histories, C13 cycles / ticker, C14 stress, C19 bursts and shutdown orders,
// C20 sessions, C11 certificate bursts) are run on the -race build in child processes with
// halt_on_error=0 and a log path. The driver parses every "WARNING: DATA RACE" block,
// reduces it to the innermost reservoir function of both accesses and judges the reports
// whose two accesses are both inside reservoir code. Reports with a harness frame innermost
// on either side are harness-induced: counted, never judged. A "concurrent map" runtime
// abort is a violation too. The borrowed monitors' own verdicts are not C15's business.

import (
	"fmt"
	"strings"

	"verifharness/core"
)

func c15wants(id string, b core.Batch) bool {
	n := b.Name
	switch id {
	case "C01":
		// cache-level histories, and the proxy-level churn scenario on plain transport (hits being served while the
		// same entries are revalidated by 304 every few milliseconds)
		return strings.HasPrefix(n, "cache-") || (strings.HasPrefix(n, "proxy-churn-") && strings.HasSuffix(n, "-plain")) || strings.HasPrefix(n, "proxy-reval-storm-")
	case "C05", "C09":
		return true
	case "C12":
		return strings.HasPrefix(n, "conc-")
	case "C13":
		return true
	case "C14":
		return b.Race
	case "C19":
		return strings.HasPrefix(n, "latest") || n == "shutdown" || n == "set-p0" || n == "policy" || n == "firstuse" || n == "unsub-during-fire-race"
	case "C20":
		return n == "sessions" || n == "routes"
	case "C11":
		return n == "expiry" || n == "burst" || n == "wire" || n == "cakinds"
	case "C06", "C03":
		return strings.Contains(n, "memory") && !strings.Contains(n, "func")
	}
	return false
}

func c15Plan(tier string, seed int64) []core.Batch {
	reps := 1
	envs := [][]string{nil}
	if tier == "thorough" {
		reps = 4
		envs = [][]string{nil, {"GOMAXPROCS=2"}, {"GOMAXPROCS=4"}}
	}
	var out []core.Batch
	for rep := 0; rep < reps; rep++ {
		for ei, env := range envs {
			for _, id := range []string{"C01", "C05", "C12", "C13", "C14", "C19", "C20", "C11", "C09", "C06", "C03"} {
				m := core.Lookup(id)
				if m == nil {
					continue
				}
				for _, b := range m.Plan("quick", seed+int64(rep)) {
					if !c15wants(id, b) {
						continue
					}
					if len(b.Env) > 0 && ei > 0 {
						continue
					}
					nb := b
					nb.Monitor = id
					nb.Race = true
					nb.Name = fmt.Sprintf("%s/%s#%d.%d", id, b.Name, rep, ei)
					if len(nb.Env) == 0 {
						nb.Env = env
					}
					nb.Tier = "quick"
					out = append(out, nb)
				}
			}
		}
	}
	return out
}

func init() {
	core.Register(&core.Monitor{
		ID:    "C15",
		Level: "exploration",
		Rule: "the concurrent batches of C01 (cache histories, 3 variants x 2 backends), C05 (coalescing bursts), C06/C03 (proxy histories on the memory backend), C09 (fault cases incl. hand-over deletions), C11 (expiry / burst / handshakes), C12 (concurrent histories with janitor), C13 (cycles, ticker interval changes), C14 (stress with config churn and Destroy during traffic), C19 (change bursts, shutdown orders, set model), C20 (sessions, routes) are executed on the -race build (thorough: repeated 4x, also GOMAXPROCS 2 and 4); " +
			"every DATA RACE block in the GORACE logs is parsed; signature = unordered pair of the innermost reservoir function@file of the two accesses. Non-trivial/distinct = the borrowed workloads' own distinct non-trivial cases that ran under the detector.",
		Assumptions: []string{"a clean race-detector run means no race was observed in the interleavings produced, not race freedom", "reports in which the innermost non-runtime frame of either access is harness code are harness-induced and are not judged",
			"the borrowed monitors' own oracles are not evaluated here"},
		Plan:     c15Plan,
		Run:      func(b core.Batch, r *core.Recorder) {},
		Parallel: 5,
		Floors:   map[string]map[string]int64{},
	})
}
