package mon

// C12 — reported cache size and entry count equal what is actually stored.
//
// Model-free conservation monitor at cache level. After every generated operation
// sequence (bounded-exhaustive over a small alphabet, then seeded random, then
// concurrent histories ending in quiescence, then SIGKILL + reopen of a file cache)
// the "truth" (what Get can actually return, and for the file backend what is in the
// directory) is compared with the cache's own counters and the dashboard metrics.

import (
	"bytes"
	"context"
	"errors"
	"fmt"
	"io"
	"os"
	"os/exec"
	"path/filepath"
	"runtime"
	"sort"
	"strconv"
	"strings"
	"sync"
	"sync/atomic"
	"syscall"
	"time"

	"reservoir/cache"
	"reservoir/metrics"
	"reservoir/utils/verifhook"
	"verifharness/core"
	"verifharness/rig"
)

type c12op struct {
	Kind string // S, L(arge), P(ast expiry store), E(mpty store), F(ailing store), D, G, U, C
	Key  int
}

func (o c12op) String() string {
	if o.Kind == "C" {
		return "C"
	}
	return fmt.Sprintf("%s%c", o.Kind, 'a'+o.Key)
}

var c12kinds = []string{"S", "L", "P", "E", "F", "D", "G", "U"}

func c12alphabet(keys int) []c12op {
	var a []c12op
	for k := 0; k < keys; k++ {
		for _, kind := range c12kinds {
			a = append(a, c12op{kind, k})
		}
	}
	a = append(a, c12op{"C", 0})
	return a
}

type failingReader struct {
	data []byte
	pos  int
	fail int
}

func (f *failingReader) Read(p []byte) (int, error) {
	if f.pos >= f.fail {
		return 0, errors.New("verif: injected source failure")
	}
	n := copy(p, f.data[f.pos:f.fail])
	f.pos += n
	return n, nil
}

type c12env struct {
	backend string
	dir     string
	limit   int64
	shards  int
	ver     int
}

func c12apply(c rig.VCache, o c12op, ver *int) {
	key := rig.Key(o.Key)
	*ver++
	future := time.Now().Add(time.Hour)
	past := time.Now().Add(-time.Hour)
	switch o.Kind {
	case "S":
		if e, err := c.Cache(key, strings.NewReader(string(rig.Body(o.Key, *ver, 100))), future, rig.Obj{K: o.Key, V: *ver}); err == nil {
			e.Data.Close()
		}
	case "L":
		if e, err := c.Cache(key, strings.NewReader(string(rig.Body(o.Key, *ver, 4096))), future, rig.Obj{K: o.Key, V: *ver}); err == nil {
			e.Data.Close()
		}
	case "P":
		if e, err := c.Cache(key, strings.NewReader(string(rig.Body(o.Key, *ver, 100))), past, rig.Obj{K: o.Key, V: *ver}); err == nil {
			e.Data.Close()
		}
	case "E":
		if e, err := c.Cache(key, strings.NewReader(""), future, rig.Obj{K: o.Key, V: *ver}); err == nil && e != nil && e.Data != nil {
			e.Data.Close()
		}
	case "F":
		if e, err := c.Cache(key, &failingReader{data: rig.Body(o.Key, *ver, 100), fail: 50}, future, rig.Obj{K: o.Key, V: *ver}); err == nil && e != nil && e.Data != nil {
			e.Data.Close()
		}
	case "D":
		c.Delete(key)
	case "G":
		if e, err := c.Get(key); err == nil {
			io.Copy(io.Discard, e.Data)
			e.Data.Close()
		}
	case "U":
		c.UpdateMetadata(key, func(m *cache.EntryMetadata[rig.Obj]) { m.Expires = m.Expires.Add(time.Second) })
	case "C":
		c.VerifRunCleanupCycle()
	}
}

type c12obs struct {
	TruthBytes, TruthN int64
	RepBytes, RepN     int64
	MetBytes, MetN     int64
	DirBytes, DirN     int64
	HasDir             bool
	Unreturnable       int
	SizeMetaMismatch   int
	Diff               []string
	negative           bool
}

func c12observe(c rig.VCache, e c12env, keys int) c12obs {
	var o c12obs
	for k := 0; k < keys; k++ {
		ent, err := c.Get(rig.Key(k))
		if err != nil {
			if !errors.Is(err, cache.ErrCacheEntryNotFound) {
				o.Unreturnable++
			}
			continue
		}
		data, rerr := io.ReadAll(ent.Data)
		ent.Data.Close()
		if rerr != nil {
			o.Unreturnable++
			continue
		}
		o.TruthBytes += int64(len(data))
		o.TruthN++
		if ent.Metadata.Size != int64(len(data)) {
			o.SizeMetaMismatch++
		}
	}
	o.RepBytes, o.RepN = c.VerifByteSize(), int64(c.VerifLen())
	o.MetBytes, o.MetN = metrics.Global.Cache.BytesCached.Get(), metrics.Global.Cache.CacheEntries.Get()
	if e.backend == "file" {
		o.HasDir = true
		ents, _ := os.ReadDir(e.dir)
		for _, de := range ents {
			if fi, err := de.Info(); err == nil && !de.IsDir() {
				o.DirBytes += fi.Size()
				o.DirN++
			}
		}
	}
	if o.RepBytes != o.TruthBytes {
		o.Diff = append(o.Diff, "bytes")
	}
	if o.RepN != o.TruthN {
		o.Diff = append(o.Diff, "count")
	}
	if o.MetBytes != o.TruthBytes {
		o.Diff = append(o.Diff, "metric-bytes")
	}
	if o.MetN != o.TruthN {
		o.Diff = append(o.Diff, "metric-count")
	}
	if o.HasDir {
		if o.DirBytes != o.TruthBytes {
			o.Diff = append(o.Diff, "dir-bytes")
		}
		if o.DirN != o.TruthN {
			o.Diff = append(o.Diff, "dir-files")
		}
	}
	if o.RepBytes < 0 || o.RepN < 0 || o.MetBytes < 0 || o.MetN < 0 {
		o.negative = true
		o.Diff = append(o.Diff, "negative")
	}
	return o
}

// c12runSeq runs one sequence on a fresh cache and returns the observation at the end
// (after a final observation a cleanup cycle is run and the metrics are compared again).
func c12runSeq(e c12env, seq []c12op, keys int) (c12obs, c12obs) {
	ctx, cancel := context.WithCancel(context.Background())
	defer cancel()
	metrics.Global.Cache.BytesCached.Set(0)
	metrics.Global.Cache.CacheEntries.Set(0)
	c, _ := rig.NewCache(ctx, rig.CacheOpts{Backend: e.backend, Dir: e.dir, Max: e.limit, Shards: e.shards})
	defer c.Destroy()
	ver := 0
	for _, o := range seq {
		c12apply(c, o, &ver)
	}
	o1 := c12observe(c, e, keys)
	c.VerifRunCleanupCycle()
	o2 := c12observe(c, e, keys)
	return o1, o2
}

func c12seqString(seq []c12op) string {
	s := make([]string, len(seq))
	for i, o := range seq {
		s[i] = o.String()
	}
	return strings.Join(s, ",")
}

// c12normalise renames keys by first occurrence and merges store sizes, so that the
// same defect has the same signature regardless of which key/size exposed it.
func c12normalise(seq []c12op) string {
	ren := map[int]int{}
	out := make([]string, 0, len(seq))
	for _, o := range seq {
		if o.Kind == "C" {
			out = append(out, "C")
			continue
		}
		if _, ok := ren[o.Key]; !ok {
			ren[o.Key] = len(ren)
		}
		k := o.Kind
		if k == "L" {
			k = "S"
		}
		out = append(out, fmt.Sprintf("%s%c", k, 'a'+ren[o.Key]))
	}
	return strings.Join(out, ">")
}

func c12fails(e c12env, seq []c12op, keys int) bool {
	o1, o2 := c12runSeq(e, seq, keys)
	return len(o1.Diff) > 0 || len(o2.Diff) > 0
}

// c12minimise is a 1-minimal delta-debugging pass (remove one op at a time).
func c12minimise(e c12env, seq []c12op, keys int) []c12op {
	cur := append([]c12op(nil), seq...)
	for changed := true; changed; {
		changed = false
		for i := 0; i < len(cur); i++ {
			cand := append(append([]c12op(nil), cur[:i]...), cur[i+1:]...)
			if len(cand) > 0 && c12fails(e, cand, keys) {
				cur = cand
				changed = true
				break
			}
		}
	}
	return cur
}

func c12limitClass(limit int64) string {
	if limit > 1<<30 {
		return "nolimit"
	}
	return fmt.Sprintf("limit%d", limit)
}

type c12judge struct {
	r         *core.Recorder
	e         c12env
	keys      int
	minimised int
}

func (j *c12judge) judge(id string, seq []c12op) {
	j.r.Eval(1)
	o1, o2 := c12runSeq(j.e, seq, j.keys)
	// non-trivial: the sequence left at least one entry behind or removed one
	stores := 0
	for _, o := range seq {
		if strings.Contains("SLPEF", o.Kind) {
			stores++
		}
	}
	if stores > 0 {
		j.r.Nontrivial(j.e.backend, j.e.limit, c12seqString(seq))
	}
	if o1.TruthN > 0 {
		j.r.Count("sequences_ending_with_entries", 1)
	}
	if len(o1.Diff) == 0 && len(o2.Diff) == 0 {
		return
	}
	min := seq
	if j.minimised < 50000 {
		j.minimised++
		min = c12minimise(j.e, seq, j.keys)
	}
	norm := c12normalise(min)
	if len(min) == len(seq) && j.minimised >= 50000 {
		norm = "unminimised:" + core.Trunc(norm, 40)
	}
	m1, m2 := c12runSeq(j.e, min, j.keys)
	sig := fmt.Sprintf("C12:drift:%s:%s:%s", j.e.backend, c12limitClass(j.e.limit), norm)
	j.r.Violation("C12", sig, fmt.Sprintf("after %s on the %s backend the reported size/count differ from what is stored (%v / after cycle %v)", norm, j.e.backend, m1.Diff, m2.Diff),
		map[string]any{"id": id, "backend": j.e.backend, "limit": j.e.limit, "shards": j.e.shards, "sequence": c12seqString(seq), "minimal": c12seqString(min)},
		map[string]any{"at_end": m1, "after_cleanup_cycle": m2, "original_at_end": o1})
}

func c12enumerate(alpha []c12op, depth int, f func([]c12op)) {
	seq := make([]c12op, depth)
	var rec func(i int)
	rec = func(i int) {
		if i == depth {
			f(seq)
			return
		}
		for _, a := range alpha {
			seq[i] = a
			rec(i + 1)
		}
	}
	rec(0)
}

func c12Run(b core.Batch, r *core.Recorder) {
	mode := b.Str("mode", "exhaustive")
	backend := b.Str("backend", "memory")
	wd, _ := os.Getwd()
	e := c12env{backend: backend, dir: filepath.Join(wd, "cachedir"), limit: int64(b.Int("limit", 1<<40)), shards: b.Int("shards", 16)}
	keys := b.Int("keys", 2)
	j := &c12judge{r: r, e: e, keys: keys}
	switch mode {
	case "exhaustive":
		alpha := c12alphabet(keys)
		depth := b.Int("depth", 3)
		// shard the first symbol over batches: part p of parts
		part, parts := b.Int("part", 0), b.Int("parts", 1)
		for d := 1; d <= depth; d++ {
			idx := 0
			c12enumerate(alpha, d, func(seq []c12op) {
				idx++
				if idx%parts != part {
					return
				}
				id := fmt.Sprintf("x%d-%d", d, idx)
				if r.Only() != "" && r.Only() != id {
					return
				}
				if idx%5000 == 0 {
					r.Case(id, c12seqString(seq))
				}
				j.judge(id, append([]c12op(nil), seq...))
			})
		}
		r.Sample(map[string]any{"mode": mode, "backend": backend, "limit": e.limit, "depth": depth, "alphabet": len(alpha), "example": "Sa,Sa,Db,C = store a, overwrite a, delete b, cleanup cycle"})
	case "random":
		rng := b.Rand("c12-random")
		alpha := c12alphabet(keys)
		n := b.Int("n", 200)
		for i := 0; i < n; i++ {
			l := 6 + rng.IntN(b.Int("maxlen", 80)-5)
			seq := make([]c12op, l)
			for k := range seq {
				seq[k] = alpha[rng.IntN(len(alpha))]
			}
			id := fmt.Sprintf("r%d", i)
			if !r.Case(id, c12seqString(seq)) {
				continue
			}
			j.judge(id, seq)
			if i == 0 {
				r.Sample(map[string]any{"mode": mode, "backend": backend, "limit": e.limit, "sequence": c12seqString(seq)})
			}
		}
	case "concurrent":
		c12concurrent(b, r, e, keys)
	case "crash":
		c12crash(b, r, e, keys)
	case "republish":
		c12republish(b, r, e)
	}
}

// c12republish: a store / overwrite / delete lands exactly between the janitor's reading of the cache size and its
// use of that number (hook janitor.size.read), in the expiry sweep and in the size check, on a cache with and without
// a reachable limit. At the following quiescence the invariant must hold. This is the deterministic form of the
// interleaving the concurrent histories reach only rarely.
func c12republish(b core.Batch, r *core.Recorder, e c12env) {
	defer verifhook.Set("janitor.size.read", nil)
	n := 0
	for _, limit := range []int64{1 << 40, 250} {
		for _, prefix := range [][]c12op{{}, {{"S", 0}}, {{"S", 0}, {"S", 1}}, {{"P", 0}, {"S", 1}}, {{"L", 0}}} {
			for _, during := range [][]c12op{{{"S", 2}}, {{"S", 0}}, {{"D", 0}}, {{"L", 2}}, {{"S", 2}, {"D", 1}}, {{"P", 2}}, {{"E", 0}}} {
				n++
				id := fmt.Sprintf("p%d", n)
				cs := map[string]any{"id": id, "backend": e.backend, "limit": limit, "before_the_cycle": c12seqString(prefix), "between_size_read_and_use": c12seqString(during)}
				if !r.Case(id, cs) {
					continue
				}
				r.Eval(1)
				ctx, cancel := context.WithCancel(context.Background())
				metrics.Global.Cache.BytesCached.Set(0)
				metrics.Global.Cache.CacheEntries.Set(0)
				c, _ := rig.NewCache(ctx, rig.CacheOpts{Backend: e.backend, Dir: e.dir, Max: limit, Shards: 16, Interval: time.Hour})
				ver := 0
				for _, o := range prefix {
					c12apply(c, o, &ver)
				}
				var fired atomic.Int64
				verifhook.Set("janitor.size.read", func(any) {
					if fired.Add(1) == 1 { // the cycle passes the point once per phase; act in the first
						for _, o := range during {
							c12apply(c, o, &ver)
						}
					}
				})
				c.VerifRunCleanupCycle()
				verifhook.Set("janitor.size.read", nil)
				c.Destroy()
				c12quiesce()
				o1 := c12observe(c, e, 3)
				r.Count("changes_placed_between_size_read_and_use", fired.Load())
				r.Nontrivial(e.backend, "republish", limit, c12seqString(prefix), c12seqString(during))
				if fired.Load() == 0 {
					r.NotJudged("hook-not-reached")
				} else if len(o1.Diff) > 0 {
					r.Violation("C12", fmt.Sprintf("C12:drift:%s:%s:change-between-janitor-size-read-and-publication", e.backend, c12limitClass(limit)),
						fmt.Sprintf("%s before a cleanup cycle, %s while the janitor was between reading the size and publishing it: afterwards the reported size/count differ from what is stored (%v)", c12seqString(prefix), c12seqString(during), o1.Diff), cs, o1)
				}
				cancel()
			}
		}
	}
	r.Sample(map[string]any{"mode": "republish", "backend": e.backend, "what": "5 prefixes x 7 changes placed at the janitor.size.read hook x {no limit, limit 250}"})
}

// c12quiesce waits until the cleanup-run counter and the global gauges have been unchanged for 10 ms (bounded).
func c12quiesce() {
	// First the janitor of the cache that was just shut down must be gone: a cleanup cycle that was in progress when
	// it was told to stop still finishes and moves the process-global gauges, and on a loaded machine its goroutine
	// can lose the CPU for longer than the "nothing moved for 10 ms" rule below waits (it then moved the gauges of
	// the NEXT case after their reset: a false alarm, DESIGN 6.4). Only the test's own goroutine is in this package
	// besides it, and that one is not inside reservoir/cache while it waits here.
	for try := 0; try < 2000; try++ {
		buf := make([]byte, 1<<20)
		buf = buf[:runtime.Stack(buf, true)]
		if !strings.Contains(string(buf), "reservoir/cache.(*cacheJanitor") {
			break
		}
		time.Sleep(5 * time.Millisecond)
	}
	type snap struct{ runs, n, b int64 }
	read := func() snap {
		return snap{metrics.Global.Cache.CleanupRuns.Get(), metrics.Global.Cache.CacheEntries.Get(), metrics.Global.Cache.BytesCached.Get()}
	}
	last, stableSince := read(), time.Now()
	deadline := time.Now().Add(2 * time.Second)
	for time.Now().Before(deadline) {
		time.Sleep(time.Millisecond)
		if cur := read(); cur != last {
			last, stableSince = cur, time.Now()
		} else if time.Since(stableSince) > 10*time.Millisecond {
			return
		}
	}
}

// c12concurrent: W workers hammer a small key universe; after the join (quiescence) the
// invariant must hold.
func c12concurrent(b core.Batch, r *core.Recorder, e c12env, keys int) {
	rounds := b.Int("rounds", 20)
	workers := b.Int("workers", 8)
	opsPer := b.Int("ops", 200)
	alpha := c12alphabet(keys)
	for round := 0; round < rounds; round++ {
		id := fmt.Sprintf("c%d", round)
		if !r.Case(id, map[string]any{"workers": workers, "ops": opsPer}) {
			continue
		}
		ctx, cancel := context.WithCancel(context.Background())
		metrics.Global.Cache.BytesCached.Set(0)
		metrics.Global.Cache.CacheEntries.Set(0)
		c, _ := rig.NewCache(ctx, rig.CacheOpts{Backend: e.backend, Dir: e.dir, Max: e.limit, Shards: e.shards, Interval: time.Duration(b.Int("interval_ms", 3600000)) * time.Millisecond})
		var wg sync.WaitGroup
		var verMu sync.Mutex
		ver := 0
		for w := 0; w < workers; w++ {
			wg.Add(1)
			rng := b.Rand(fmt.Sprintf("c12-conc-%d-%d", round, w))
			go func() {
				defer wg.Done()
				for i := 0; i < opsPer; i++ {
					o := alpha[rng.IntN(len(alpha))]
					verMu.Lock()
					ver += 1
					v := ver
					verMu.Unlock()
					c12apply(c, o, &v)
				}
			}()
		}
		// cyclers: cleanup cycles (expiry sweep + size check, each republishing the size into the dashboard gauge)
		// spin next to the workers, so that many republications overlap with stores and deletes
		stopCyc := make(chan struct{})
		var cyc sync.WaitGroup
		var cycles atomic.Int64
		for k := 0; k < b.Int("cyclers", 0); k++ {
			cyc.Add(1)
			go func() {
				defer cyc.Done()
				// a bounded number of cycles: the workers outlive the cyclers, so that a republication that
				// overwrote (or double-counted) a concurrent change is not healed by a later cycle
				for n := 0; n < 1+(round+k)%4; n++ {
					select {
					case <-stopCyc:
						return
					default:
						for y := 0; y < (round*7+k)%13; y++ {
							runtime.Gosched()
						}
						c.VerifRunCleanupCycle()
						cycles.Add(1)
					}
				}
			}()
		}
		wg.Wait()
		close(stopCyc)
		cyc.Wait()
		r.Count("cleanup_cycles_overlapping_the_workers", cycles.Load())
		c.Destroy() // stop the janitor
		// quiescence: a cleanup cycle that was in progress when the janitor was told to stop still finishes (and
		// moves the process-global gauges); wait until nothing moves any more
		c12quiesce()
		r.Eval(1)
		r.Count("concurrent_ops", int64(workers*opsPer))
		o1 := c12observe(c, e, keys)
		r.Nontrivial(e.backend, "concurrent", round, b.Seed)
		if len(o1.Diff) > 0 {
			sig := fmt.Sprintf("C12:drift:%s:%s:concurrent-history", e.backend, c12limitClass(e.limit))
			r.Violation("C12", sig, fmt.Sprintf("after a concurrent history ending in quiescence the reported size/count differ from what is stored (%v)", o1.Diff),
				map[string]any{"id": id, "backend": e.backend, "workers": workers, "ops": opsPer, "limit": e.limit}, o1)
		}
		cancel()
	}
	r.Sample(map[string]any{"mode": "concurrent", "backend": e.backend, "workers": workers, "ops_per_worker": opsPer, "rounds": rounds, "limit": e.limit})
}

// c12crash: a victim process running a file cache is SIGKILLed at a chosen operation
// index; this process then reopens the directory.
func c12crash(b core.Batch, r *core.Recorder, e c12env, keys int) {
	n := b.Int("n", 20)
	rng := b.Rand("c12-crash")
	self, _ := os.Executable()
	alpha := c12alphabet(keys)
	for i := 0; i < n; i++ {
		killAt := rng.IntN(30)
		id := fmt.Sprintf("k%d", i)
		if !r.Case(id, map[string]any{"kill_at": killAt}) {
			continue
		}
		os.RemoveAll(e.dir)
		cmd := exec.Command(self, "aux", "c12-victim", e.dir, strconv.FormatInt(b.Seed+int64(i), 10), strconv.Itoa(killAt))
		cmd.Env = append(os.Environ(), "GORACE=")
		err := cmd.Run()
		killed := false
		if ee, ok := err.(*exec.ExitError); ok {
			if ws, ok := ee.Sys().(syscall.WaitStatus); ok && ws.Signaled() && ws.Signal() == syscall.SIGKILL {
				killed = true
			}
		}
		if !killed {
			r.NotJudged("victim-not-killed")
			continue
		}
		left, _ := os.ReadDir(e.dir)
		r.Eval(1)
		if len(left) > 0 {
			r.Count("dirty_dirs_reopened", 1)
			r.Nontrivial("crash", killAt, len(left), b.Seed+int64(i))
		}
		// reopen
		ctx, cancel := context.WithCancel(context.Background())
		metrics.Global.Cache.BytesCached.Set(0)
		metrics.Global.Cache.CacheEntries.Set(0)
		c, _ := rig.NewCache(ctx, rig.CacheOpts{Backend: "file", Dir: e.dir, Max: e.limit, Shards: e.shards})
		o0 := c12observe(c, e, keys)
		if len(o0.Diff) > 0 || o0.RepBytes != 0 || o0.RepN != 0 || o0.DirN != 0 {
			r.Violation("C12", "C12:drift:file:reopen-dirty-directory", fmt.Sprintf("after abandoning a file cache (%d files left) and reopening the directory the cache does not report 0/0 over an empty directory (%v)", len(left), o0.Diff),
				map[string]any{"id": id, "kill_at": killAt, "files_left": len(left)}, o0)
		}
		// continue a history on the reopened cache
		ver := 1000
		var seq []c12op
		for k := 0; k < 12; k++ {
			o := alpha[rng.IntN(len(alpha))]
			seq = append(seq, o)
			c12apply(c, o, &ver)
		}
		o1 := c12observe(c, e, keys)
		if len(o1.Diff) > 0 {
			r.Violation("C12", "C12:drift:file:after-reopen:"+c12normalise(c12minimise(e, seq, keys)), "history continued after reopening a dirty directory drifts",
				map[string]any{"id": id, "sequence": c12seqString(seq)}, o1)
		}
		c.Destroy()
		cancel()
	}
	r.Sample(map[string]any{"mode": "crash", "what": "victim process SIGKILLed at a seeded operation index, directory reopened by a new cache", "n": n})
}

// dyingReader delivers 500 bytes, then kills the process from inside the next Read (i.e. mid-store).
type dyingReader struct{ n int }

func (d *dyingReader) Read(p []byte) (int, error) {
	d.n++
	if d.n == 1 {
		return copy(p, bytes.Repeat([]byte("x"), 500)), nil
	}
	syscall.Kill(os.Getpid(), syscall.SIGKILL)
	time.Sleep(time.Second)
	return 0, errors.New("unreachable")
}

// c12victim is the aux entry point of the process that gets killed.
func c12victim(args []string) {
	dir := args[0]
	seed, _ := strconv.ParseInt(args[1], 10, 64)
	killAt, _ := strconv.Atoi(args[2])
	b := core.Batch{Monitor: "C12", Name: "victim", Seed: seed}
	rng := b.Rand("victim")
	c, _ := rig.NewCache(context.Background(), rig.CacheOpts{Backend: "file", Dir: dir, Max: 1 << 40, Shards: 4})
	alpha := c12alphabet(3)
	ver := 0
	for i := 0; ; i++ {
		if i == killAt {
			if killAt%2 == 1 {
				// die in the middle of a store: the source has delivered 500 bytes and never returns again
				c.Cache(rig.Key(7), &dyingReader{}, time.Now().Add(time.Hour), rig.Obj{})
			}
			syscall.Kill(os.Getpid(), syscall.SIGKILL)
			time.Sleep(time.Second)
		}
		o := alpha[rng.IntN(len(alpha))]
		if i < 3 {
			o = c12op{"S", i % 3} // make sure the directory is dirty
		}
		c12apply(c, o, &ver)
	}
}

func c12Plan(tier string, seed int64) []core.Batch {
	var bs []core.Batch
	add := func(name string, race bool, args map[string]any) {
		bs = append(bs, core.Batch{Name: name, Args: args, Race: race, TimeoutS: 900})
	}
	memDepth, fileDepth, nRand, rounds, crashes := 4, 3, 150, 12, 12
	parts := 8
	if tier == "thorough" {
		memDepth, fileDepth, nRand, rounds, crashes = 5, 4, 6000, 200, 200
		parts = 16
	}
	for p := 0; p < parts; p++ {
		add(fmt.Sprintf("exh-memory-p%d", p), false, map[string]any{"mode": "exhaustive", "backend": "memory", "depth": memDepth, "part": p, "parts": parts})
	}
	for p := 0; p < parts; p++ {
		add(fmt.Sprintf("exh-file-p%d", p), false, map[string]any{"mode": "exhaustive", "backend": "file", "depth": fileDepth, "part": p, "parts": parts})
	}
	// store-triggered eviction variants: tiny limit
	for _, be := range []string{"memory", "file"} {
		add("exh-"+be+"-limit150", false, map[string]any{"mode": "exhaustive", "backend": be, "depth": 3, "limit": 150, "shards": 1})
		add("exh-"+be+"-limit150-sh3", false, map[string]any{"mode": "exhaustive", "backend": be, "depth": 3, "limit": 150, "shards": 3})
		add("rnd-"+be, false, map[string]any{"mode": "random", "backend": be, "n": nRand, "keys": 3})
		add("rnd-"+be+"-limit300", false, map[string]any{"mode": "random", "backend": be, "n": nRand, "keys": 3, "limit": 300, "shards": 2})
		add("conc-"+be, true, map[string]any{"mode": "concurrent", "backend": be, "rounds": rounds, "keys": 3})
		add("conc-"+be+"-limit300-janitor", true, map[string]any{"mode": "concurrent", "backend": be, "rounds": rounds, "keys": 3, "limit": 300, "interval_ms": 1, "shards": 2})
		add("conc-"+be+"-cyclers", false, map[string]any{"mode": "concurrent", "backend": be, "rounds": rounds * 20, "keys": 3, "cyclers": 2, "ops": 12, "workers": 4, "shards": 2})
		add("conc-"+be+"-limit300-cyclers", true, map[string]any{"mode": "concurrent", "backend": be, "rounds": rounds * 10, "keys": 3, "limit": 300, "cyclers": 2, "ops": 12, "workers": 4, "shards": 2})
	}
	for _, be := range []string{"memory", "file"} {
		add("republish-"+be, false, map[string]any{"mode": "republish", "backend": be})
	}
	add("crash-file", false, map[string]any{"mode": "crash", "backend": "file", "n": crashes, "keys": 3})
	sort.SliceStable(bs, func(i, k int) bool { return false })
	return bs
}

func init() {
	core.RegisterAux("c12-victim", c12victim)
	core.Register(&core.Monitor{
		ID:    "C12",
		Level: "exploration",
		Rule: "operation sequences over {store 100B, store 4096B, store already-expired, empty store, store whose source fails after 50B, delete, get, update-metadata} x keys + cleanup cycle: " +
			"all sequences up to the batch depth (bounded-exhaustive, split over parts), seeded random sequences of 6-80 ops, 8-worker concurrent histories checked after the join (alone, next to a 1 ms janitor, and next to 2-3 goroutines spinning cleanup cycles so that republications of the size into the dashboard gauge overlap the mutations), SIGKILL of a file cache followed by reopening its directory, and changes placed by a hook exactly between the janitor's reading of the cache size and its publication in the dashboard gauge; " +
			"with an unlimited and a tiny size limit (store-triggered eviction). At the end of every sequence (and again after one cleanup cycle) truth = what Get returns for every key (+ directory listing for the file backend) is compared with the cache's byte/entry counters and the dashboard metrics. " +
			"Non-trivial = distinct sequence containing at least one store; failing sequences are delta-debugged to a 1-minimal sequence whose normalised form is the signature.",
		Assumptions: []string{
			"one cache instance at a time per process, so the process-global dashboard metrics are attributable (they are reset by the harness before each sequence)",
			"truth is measured through the cache's own Get (entries it can actually return) and os.ReadDir",
		},
		Plan:     c12Plan,
		Run:      c12Run,
		Parallel: 12,
		Floors: map[string]map[string]int64{
			"quick":    {"sequences_ending_with_entries": 20000, "concurrent_ops": 50000, "dirty_dirs_reopened": 5, "changes_placed_between_size_read_and_use": 100},
			"thorough": {"sequences_ending_with_entries": 400000, "concurrent_ops": 1000000, "dirty_dirs_reopened": 100, "changes_placed_between_size_read_and_use": 100},
		},
	})
}
