package mon

// C13 — size limit enforced by LRU eviction to 80 %; cleanup removes exactly the expired;
// run-time limit / interval changes govern the following cycles.
//
// Deterministic cache-level monitor. The janitor interval is 1 h and cycles are driven
// through the tag-guarded VerifRunCleanupCycle (the ticker variant uses the real ticker
// with the janitor.cycle.done / janitor.interval.applied hooks as barriers). The harness
// records the window of every key's last access; accesses are spaced so that the
// millisecond-resolution priority is unambiguous, pairs that are too close are not judged.

import (
	"context"
	"errors"
	"fmt"
	"io"
	"os"
	"path/filepath"
	"sort"
	"strings"
	"sync"
	"sync/atomic"
	"time"

	"reservoir/cache"
	"reservoir/utils/bytesize"
	"reservoir/utils/duration"
	"reservoir/utils/verifhook"
	"verifharness/core"
	"verifharness/rig"
)

type c13pop struct {
	ID       string `json:"id"`
	Backend  string `json:"backend"`
	Shards   int    `json:"shards"`
	N        int    `json:"n"`
	Size     int    `json:"entry_size"`
	Limit    int64  `json:"limit"`
	Trigger  string `json:"trigger"` // cycle | store
	Order    []int  `json:"access_order"`
	LimitVia string `json:"limit_via"` // constructor | runtime-change
}

func c13key(pop string, i int) cache.CacheKey {
	return cache.FromString(fmt.Sprintf("c13-%s-%d", pop, i))
}

func c13present(c rig.VCache, k cache.CacheKey) bool {
	for _, kk := range c.VerifKeys() {
		if kk == k {
			return true
		}
	}
	return false
}

var c13dirSeq atomic.Int64

func c13dir() string {
	wd, _ := os.Getwd()
	return filepath.Join(wd, "c13cache", fmt.Sprint(c13dirSeq.Add(1)))
}

// c13population: populate, touch in a known order, trigger, compare the surviving set with the model.
func c13population(r *core.Recorder, p c13pop) {
	r.Eval(1)
	ctx, cancel := context.WithCancel(context.Background())
	defer cancel()
	startLimit := p.Limit
	if p.LimitVia != "constructor" {
		startLimit = 1 << 40
	}
	c, cfg := rig.NewCache(ctx, rig.CacheOpts{Backend: p.Backend, Dir: c13dir(), Max: startLimit, Shards: p.Shards})
	defer c.Destroy()
	future := time.Now().Add(time.Hour)
	type acc struct{ from, to int64 }
	last := make([]acc, p.N)
	store := func(i int) error {
		t0 := rig.Now()
		e, err := c.Cache(c13key(p.ID, i), strings.NewReader(string(rig.Body(i, 1, p.Size))), future, rig.Obj{K: i, V: 1})
		if err == nil {
			e.Data.Close()
		}
		last[i] = acc{t0, rig.Now()}
		return err
	}
	for i := 0; i < p.N; i++ {
		if err := store(i); err != nil {
			r.NotJudged("population-store-failed")
			return
		}
		time.Sleep(3 * time.Millisecond)
	}
	for _, i := range p.Order {
		t0 := rig.Now()
		e, err := c.Get(c13key(p.ID, i))
		if err != nil {
			r.NotJudged("population-get-failed")
			return
		}
		e.Data.Close()
		last[i] = acc{t0, rig.Now()}
		time.Sleep(3 * time.Millisecond)
	}
	if p.LimitVia != "constructor" {
		if p.LimitVia == "runtime-change-burst" {
			// several changes back to back; the last one is the limit that must govern what follows
			for k := 0; k < 5; k++ {
				cfg.Cache.MaxCacheSize.Overwrite(bytesize.ByteSize(p.Limit*int64(3+k) + 1<<30))
			}
		}
		cfg.Cache.MaxCacheSize.Overwrite(bytesize.ByteSize(p.Limit))
		ok := waitFor(func() bool { l, _ := c.VerifLimits(); return l == p.Limit }, 5*time.Second)
		if ok && p.LimitVia == "runtime-change-burst" {
			// notifications of the earlier changes may still be in flight: the limit must stay on the last value
			time.Sleep(20 * time.Millisecond)
			l, _ := c.VerifLimits()
			ok = l == p.Limit
		}
		if !ok {
			r.Violation("C13", "C13:limit-change-not-applied:"+p.Backend, fmt.Sprintf("max_cache_size was changed to %d at run time (%s) but the cache enforces another limit afterwards", p.Limit, p.LimitVia),
				map[string]any{"id": p.ID, "population": p}, nil)
			return
		}
	}
	total := c.VerifByteSize()
	if total != int64(p.N*p.Size) || c.VerifLen() != p.N {
		r.NotJudged("population-not-intact-before-trigger")
		return
	}
	// LRU order with ambiguity detection
	idx := make([]int, p.N)
	for i := range idx {
		idx[i] = i
	}
	sort.Slice(idx, func(a, b int) bool { return last[idx[a]].from < last[idx[b]].from })
	ambiguous := map[int]bool{}
	for k := 1; k < len(idx); k++ {
		// priorities are whole milliseconds since last access: two accesses whose windows are closer than 2 ms may tie or swap
		if last[idx[k]].from-last[idx[k-1]].to < int64(2*time.Millisecond) {
			ambiguous[idx[k]], ambiguous[idx[k-1]] = true, true
		}
	}
	storingShard := -1
	trigKey := c13key(p.ID, p.N) // a new key
	if p.Trigger == "overwrite" {
		// the store that finds the cache at its limit replaces an entry that is already cached (the most recently
		// used one, so that it is not an eviction candidate itself)
		trigKey = c13key(p.ID, idx[len(idx)-1])
	}
	switch p.Trigger {
	case "cycle":
		c.VerifRunCleanupCycle()
	case "store", "overwrite":
		storingShard = cache.VerifShardIndex(trigKey, p.Shards)
		e, err := c.Cache(trigKey, strings.NewReader(string(rig.Body(p.N, 1, p.Size))), future, rig.Obj{K: p.N, V: 1})
		if err == nil {
			e.Data.Close()
		}
	}
	// model
	target := int64(float64(p.Limit) * 0.8)
	expectEvicted := map[int]bool{}
	exempt := map[int]bool{}
	if total >= p.Limit {
		cur := total
		for _, i := range idx {
			if cur <= target {
				break
			}
			if p.Trigger == "overwrite" && i == idx[len(idx)-1] {
				exempt[i] = true // the entry being replaced: its own key lock is held by the store
				continue
			}
			if (p.Trigger == "store" || p.Trigger == "overwrite") && p.Backend == "memory" && cache.VerifShardIndex(c13key(p.ID, i), p.Shards) == storingShard {
				exempt[i] = true // shares the lock held by the store that triggered the eviction
				continue
			}
			expectEvicted[i] = true
			cur -= int64(p.Size)
		}
	}
	gone := map[int]bool{}
	for i := 0; i < p.N; i++ {
		if !c13present(c, c13key(p.ID, i)) {
			gone[i] = true
		}
	}
	r.Nontrivial(p.Backend, p.Shards, p.N, p.Size, p.Limit, p.Trigger, p.LimitVia, fmt.Sprint(p.Order))
	if total >= p.Limit {
		r.Count("populations_over_limit", 1)
		r.Count("evictions_expected", int64(len(expectEvicted)))
	} else {
		r.Count("populations_below_limit", 1)
	}
	cs := map[string]any{"id": p.ID, "population": p}
	wit := map[string]any{"lru_order": idx, "expected_evicted": keysOf(expectEvicted), "actually_gone": keysOf(gone), "exempt_same_shard": keysOf(exempt), "total": total, "target": target, "ambiguous": keysOf(ambiguous), "reported_size_after": c.VerifByteSize()}
	cls := fmt.Sprintf("%s:%s", p.Backend, p.Trigger)
	if p.LimitVia != "constructor" {
		cls += ":after-runtime-limit-change"
	}
	switch {
	case total < p.Limit && len(gone) > 0:
		r.Violation("C13", "C13:evicted-below-limit:"+cls, fmt.Sprintf("total %d is below the limit %d, yet %d entries were evicted", total, p.Limit, len(gone)), cs, wit)
		return
	case total >= p.Limit && len(expectEvicted) > 0 && len(gone) == 0:
		r.Violation("C13", "C13:no-eviction-at-limit:"+cls, fmt.Sprintf("total %d >= limit %d and evictable entries exist, yet nothing was evicted", total, p.Limit), cs, wit)
		return
	}
	if len(gone) > len(expectEvicted) {
		r.Violation("C13", "C13:evicted-more-than-needed:"+cls, fmt.Sprintf("%d entries evicted where %d bring the store to 80%% of the limit", len(gone), len(expectEvicted)), cs, wit)
		return
	}
	if len(gone) < len(expectEvicted) {
		r.Violation("C13", "C13:evicted-less-than-needed:"+cls, fmt.Sprintf("%d entries evicted, %d are needed to reach 80%% of the limit (%d)", len(gone), len(expectEvicted), target), cs, wit)
		return
	}
	// ordering: same cardinality; every difference must involve an ambiguous pair
	for i := range gone {
		if !expectEvicted[i] {
			if ambiguous[i] {
				r.NotJudged("lru-order-ambiguous-pair")
				return
			}
			r.Violation("C13", "C13:lru-order-violated:"+cls, fmt.Sprintf("entry %d was evicted while an entry accessed earlier survived", i), cs, wit)
			return
		}
	}
	r.Count("populations_matching_model", 1)
}

func keysOf(m map[int]bool) []int {
	var out []int
	for k := range m {
		out = append(out, k)
	}
	sort.Ints(out)
	return out
}

// c13sizeWeight: of two entries accessed within a few ms, the one of >= 2 MiB goes first.
func c13sizeWeight(r *core.Recorder, backend string, shards int, id string) {
	r.Eval(1)
	ctx, cancel := context.WithCancel(context.Background())
	defer cancel()
	limit := int64(3 << 20)
	c, _ := rig.NewCache(ctx, rig.CacheOpts{Backend: backend, Dir: c13dir(), Max: limit, Shards: shards})
	defer c.Destroy()
	future := time.Now().Add(time.Hour)
	big := rig.Body(1, 1, 5<<19) // 2.5 MiB
	put := func(i int, b []byte) {
		if e, err := c.Cache(c13key(id, i), strings.NewReader(string(b)), future, rig.Obj{K: i}); err == nil {
			e.Data.Close()
		}
	}
	// tiny first (older), big second (more recent by a few ms), then filler to cross the limit
	t0 := time.Now()
	put(0, rig.Body(0, 1, 100))
	put(1, big)
	put(2, rig.Body(2, 1, 1<<19)) // 0.5 MiB -> total just over 3 MiB
	gap := time.Since(t0)
	c.VerifRunCleanupCycle()
	bigGone, tinyGone := !c13present(c, c13key(id, 1)), !c13present(c, c13key(id, 0))
	r.Nontrivial("sizeweight", backend, shards)
	if gap > 150*time.Millisecond {
		r.NotJudged("size-weight-accesses-too-far-apart") // the 2.5 MiB entry's weight equals 200 ms of age
		return
	}
	r.Count("size_weight_checks", 1)
	if tinyGone {
		// evicting the 2.5 MiB entry alone reaches the target; with the size weight it ranks first
		r.Violation("C13", "C13:size-weight-ignored:"+backend, "a 100-byte entry was evicted although the 2.5 MiB entry stored a few milliseconds after it ranks first by size weight and its eviction alone reaches the target", map[string]any{"id": id, "backend": backend}, map[string]any{"big_gone": bigGone, "tiny_gone": tinyGone, "gap": gap.String()})
		return
	}
	if !bigGone && tinyGone {
		r.Violation("C13", "C13:size-weight-ignored:"+backend, "a 100-byte entry was evicted before a 2.5 MiB entry accessed within a few milliseconds of it", map[string]any{"id": id, "backend": backend}, map[string]any{"big_gone": bigGone, "tiny_gone": tinyGone})
	}
	if !bigGone && !tinyGone {
		r.Violation("C13", "C13:no-eviction-at-limit:"+backend+":size-weight", "store over its limit, nothing evicted by the cycle", map[string]any{"id": id, "backend": backend}, nil)
	}
}

// c13expiry: a cycle removes exactly the expired entries; a fresh overwrite landing between the scan and
// the removal must survive.
func c13expiry(r *core.Recorder, backend string, shards, n int, id string, toctou bool, hookMu *sync.Mutex, hooks map[string]func()) {
	renew := toctou && n%2 == 0 // alternate: a fresh overwrite / an in-place renewal (what a 304 does) lands after the scan
	r.Eval(1)
	ctx, cancel := context.WithCancel(context.Background())
	defer cancel()
	c, _ := rig.NewCache(ctx, rig.CacheOpts{Backend: backend, Dir: c13dir(), Max: 1 << 40, Shards: shards})
	defer c.Destroy()
	past, future := time.Now().Add(-time.Hour), time.Now().Add(time.Hour)
	expired := map[int]bool{}
	for i := 0; i < n; i++ {
		exp := future
		if (i*7+len(id))%3 == 0 {
			exp = past
			expired[i] = true
		}
		if e, err := c.Cache(c13key(id, i), strings.NewReader(string(rig.Body(i, 1, 64))), exp, rig.Obj{K: i}); err == nil {
			e.Data.Close()
		}
	}
	victim := -1
	if toctou {
		for i := range expired {
			victim = i
			break
		}
		if victim >= 0 {
			hookMu.Lock()
			hooks["scan"] = func() {
				if renew {
					// the expired entry is revalidated in place after the scan collected it
					c.UpdateMetadata(c13key(id, victim), func(m *cache.EntryMetadata[rig.Obj]) { m.Expires = future })
					return
				}
				// a fresh version of an expired key lands after the scan collected it
				if e, err := c.Cache(c13key(id, victim), strings.NewReader(string(rig.Body(victim, 2, 64))), future, rig.Obj{K: victim, V: 2}); err == nil {
					e.Data.Close()
				}
			}
			hookMu.Unlock()
		}
	}
	c.VerifRunCleanupCycle()
	if toctou {
		hookMu.Lock()
		delete(hooks, "scan")
		hookMu.Unlock()
	}
	r.Nontrivial("expiry", backend, shards, n, toctou, id)
	r.Count("expiry_cycles_checked", 1)
	cs := map[string]any{"id": id, "backend": backend, "shards": shards, "n": n, "fresh_overwrite_after_scan": toctou}
	for i := 0; i < n; i++ {
		present := c13present(c, c13key(id, i))
		switch {
		case i == victim:
			if !present && renew {
				r.Violation("C13", "C13:renewed-entry-removed-after-scan:"+backend, "an expired entry was renewed in place (expiry moved an hour ahead, as a 304 does) after the cleanup scan had collected it; the cycle then removed the no longer expired entry", cs, map[string]any{"key": i})
				return
			}
			if renew {
				continue
			}
			if !present {
				r.Violation("C13", "C13:fresh-removed-after-scan:"+backend, "an expired key was overwritten with a fresh body after the cleanup scan had collected it; the cycle then removed the fresh entry", cs, map[string]any{"key": i})
				return
			}
			e, err := c.Get(c13key(id, i))
			if err != nil {
				r.Violation("C13", "C13:fresh-removed-after-scan:"+backend, "the fresh overwrite is listed but cannot be read after the cycle: "+err.Error(), cs, nil)
				return
			}
			b, _ := io.ReadAll(e.Data)
			e.Data.Close()
			if bv := rig.CheckFull(b, 64); bv.V != 2 {
				r.Violation("C13", "C13:fresh-overwrite-lost:"+backend, "after the cycle the key holds "+bv.String()+" instead of the fresh version", cs, nil)
			}
		case expired[i] && present:
			r.Violation("C13", "C13:expired-entry-left:"+backend, fmt.Sprintf("entry %d expired an hour ago and is still there after a complete cleanup cycle", i), cs, nil)
			return
		case !expired[i] && !present:
			r.Violation("C13", "C13:fresh-entry-removed:"+backend, fmt.Sprintf("entry %d expires in an hour and was removed by the cleanup cycle", i), cs, nil)
			return
		}
	}
}

// c13interval: a run-time interval change governs the following cycles (real ticker).
func c13interval(r *core.Recorder, backend string, id string) {
	r.Eval(1)
	ctx, cancel := context.WithCancel(context.Background())
	defer cancel()
	c, cfg := rig.NewCache(ctx, rig.CacheOpts{Backend: backend, Dir: c13dir(), Max: 1 << 40, Shards: 4, Interval: time.Hour})
	defer c.Destroy()
	var cycles, applied atomic.Int64
	verifhook.Set("janitor.cycle.done", func(any) { cycles.Add(1) })
	verifhook.Set("janitor.interval.applied", func(any) { applied.Add(1) })
	defer verifhook.Set("janitor.cycle.done", nil)
	defer verifhook.Set("janitor.interval.applied", nil)
	r.Nontrivial("interval", backend, id)
	r.Count("interval_change_checks", 1)
	cs := map[string]any{"id": id, "backend": backend}
	time.Sleep(30 * time.Millisecond)
	if cycles.Load() != 0 {
		r.Violation("C13", "C13:cycle-before-interval", "a cleanup cycle ran 30 ms after start although the interval is 1 h", cs, nil)
		return
	}
	// 1 h -> 2 ms: cycles must start
	cfg.Cache.CleanupInterval.Overwrite(duration.Duration(2 * time.Millisecond))
	if !waitFor(func() bool { return applied.Load() >= 1 }, 10*time.Second) {
		r.Violation("C13", "C13:interval-change-not-applied:"+backend, "cleanup_interval was changed from 1 h to 2 ms; the janitor did not pick it up within 10 s", cs, nil)
		return
	}
	// an expired entry stored now must be removed by the now-frequent cycles
	if e, err := c.Cache(c13key(id, 0), strings.NewReader("expired-soon"), time.Now().Add(-time.Minute), rig.Obj{}); err == nil {
		e.Data.Close()
	}
	base := cycles.Load()
	if !waitFor(func() bool { return cycles.Load() >= base+3 }, 10*time.Second) {
		r.Violation("C13", "C13:new-interval-not-governing:"+backend, fmt.Sprintf("after the change to 2 ms only %d cycles ran in 10 s", cycles.Load()-base), cs, nil)
		return
	}
	if c13present(c, c13key(id, 0)) {
		r.Violation("C13", "C13:expired-entry-left:"+backend+":ticker", "three ticker-driven cycles ran, the expired entry is still there", cs, nil)
	}
	// 2 ms -> 1 h: at most one further cycle
	a0 := applied.Load()
	cfg.Cache.CleanupInterval.Overwrite(duration.Duration(time.Hour))
	if !waitFor(func() bool { return applied.Load() > a0 }, 10*time.Second) {
		r.Violation("C13", "C13:interval-change-not-applied:"+backend+":back", "cleanup_interval was changed back to 1 h; the janitor did not pick it up within 10 s", cs, nil)
		return
	}
	base = cycles.Load()
	time.Sleep(60 * time.Millisecond)
	if d := cycles.Load() - base; d > 1 {
		r.Violation("C13", "C13:old-interval-still-governing:"+backend, fmt.Sprintf("%d cycles ran in the 60 ms after the interval was set back to 1 h", d), cs, nil)
	}
}

func c13perm(rng interface{ IntN(int) int }, n, k int) []int {
	p := make([]int, n)
	for i := range p {
		p[i] = i
	}
	for i := n - 1; i > 0; i-- {
		j := rng.IntN(i + 1)
		p[i], p[j] = p[j], p[i]
	}
	return p[:k]
}

func c13Run(b core.Batch, r *core.Recorder) {
	rig.QuietLogs()
	backend := b.Str("backend", "memory")
	var hookMu sync.Mutex
	hooks := map[string]func(){}
	verifhook.Set("janitor.scan.done", func(any) {
		hookMu.Lock()
		f := hooks["scan"]
		hookMu.Unlock()
		if f != nil {
			f()
		}
	})
	switch b.Str("part", "evict") {
	case "evict":
		rng := b.Rand("c13")
		n := b.Int("n", 40)
		var pops []c13pop
		// all access permutations for small n
		for _, nn := range []int{3, 4} {
			var perm func(cur []int, used []bool)
			perm = func(cur []int, used []bool) {
				if len(cur) == nn {
					pops = append(pops, c13pop{N: nn, Order: append([]int(nil), cur...)})
					return
				}
				for i := 0; i < nn; i++ {
					if !used[i] {
						used[i] = true
						perm(append(cur, i), used)
						used[i] = false
					}
				}
			}
			perm(nil, make([]bool, nn))
		}
		for i := 0; i < n; i++ {
			nn := 5 + rng.IntN(30)
			pops = append(pops, c13pop{N: nn, Order: c13perm(rng, nn, rng.IntN(nn+1))})
		}
		shardSet := []int{1, 2, 3, 16, 1024}
		var wg sync.WaitGroup
		sem := make(chan struct{}, 8)
		for i, p := range pops {
			p.ID = fmt.Sprintf("%s-%d", backend, i)
			p.Backend = backend
			p.Shards = shardSet[i%len(shardSet)]
			p.Size = []int{100, 257, 1000}[i%3]
			total := int64(p.N * p.Size)
			// a limit set at construction must not bite while the population is still being stored
			if i%2 == 0 {
				p.LimitVia = "constructor"
				p.Limit = []int64{total - 1, total, total + 1, total * 2}[(i/2)%4]
			} else {
				p.LimitVia = []string{"runtime-change", "runtime-change-burst"}[(i/12)%2]
				if b.Int("burst_only", 0) == 1 {
					p.LimitVia = "runtime-change-burst"
				}
				p.Limit = []int64{total / 2, total * 3 / 4, total - 1, total, total + 1, total / 3}[(i/2)%6]
			}
			if p.Limit < 1 {
				p.Limit = 1
			}
			p.Trigger = []string{"cycle", "store", "overwrite"}[(i/4)%3]
			if !r.Case(p.ID, p) {
				continue
			}
			if i < 2 {
				r.Sample(p)
			}
			wg.Add(1)
			sem <- struct{}{}
			go func() {
				defer wg.Done()
				defer func() { <-sem }()
				c13population(r, p)
			}()
		}
		wg.Wait()
		for i, sh := range []int{1, 16} {
			c13sizeWeight(r, backend, sh, fmt.Sprintf("sw-%s-%d", backend, i))
		}
	case "expiry":
		k := 0
		for _, sh := range []int{1, 2, 3, 16, 1024} {
			for _, n := range []int{1, 3, 10, 40} {
				for _, toctou := range []bool{false, true} {
					k++
					id := fmt.Sprintf("exp-%s-%d", backend, k)
					if !r.Case(id, map[string]any{"shards": sh, "n": n, "toctou": toctou}) {
						continue
					}
					c13expiry(r, backend, sh, n, id, toctou, &hookMu, hooks)
				}
			}
		}
		r.Sample(map[string]any{"part": "expiry", "backend": backend, "what": "entries with expiry -1h/+1h, one cleanup cycle; variant: fresh overwrite of an expired key injected at the janitor.scan.done hook"})
		for i := 0; i < b.Int("interval_checks", 2); i++ {
			id := fmt.Sprintf("int-%s-%d", backend, i)
			if r.Case(id, "interval") {
				c13interval(r, backend, id)
			}
		}
	}
	_ = errors.New
}

func c13Plan(tier string, seed int64) []core.Batch {
	n, ic := 40, 2
	if tier == "thorough" {
		n, ic = 5000, 20
	}
	var bs []core.Batch
	for _, be := range []string{"memory", "file"} {
		bs = append(bs, core.Batch{Name: "evict-" + be, TimeoutS: 1800, Args: map[string]any{"part": "evict", "backend": be, "n": n}})
		// one P: the notification goroutine started last runs first, the other delivery order of back-to-back changes
		bs = append(bs, core.Batch{Name: "evict-" + be + "-gomaxprocs1", TimeoutS: 1800, Env: []string{"GOMAXPROCS=1"}, Args: map[string]any{"part": "evict", "backend": be, "n": n / 4, "burst_only": 1}})
		bs = append(bs, core.Batch{Name: "expiry-" + be, TimeoutS: 1800, Args: map[string]any{"part": "expiry", "backend": be, "interval_checks": ic}})
	}
	return bs
}

func init() {
	core.Register(&core.Monitor{
		ID:    "C13",
		Level: "exploration",
		Rule: "eviction: populations of n equal-size entries (all access permutations for n in {3,4}, seeded random n in 5..34 with a random partial re-access order), limit in {T-1, T, T+1, T/2, 3T/4, 2T} set by the constructor, changed at run time, or changed six times back to back (the last value must govern; also under GOMAXPROCS=1, where the notification goroutines run in the other order), shards in {1,2,3,16,1024}, trigger = synchronous cleanup cycle, a store of a new key, or a store that overwrites the most recently used cached key, both backends; the surviving set must equal the model (nothing below the limit; at or above it the minimal LRU prefix reaching 80 %, same-shard keys exempt on the memory store path); a size-weight case (2.5 MiB vs 100 B); " +
			"expiry: n in {1,3,10,40} entries with expiry -1 h / +1 h, one cycle removes exactly the expired; variant with a fresh overwrite of an expired key injected between scan and removal; interval: 1 h -> 2 ms -> 1 h on the real ticker with hook barriers. Access pairs closer than 2 ms are not judged. Non-trivial = distinct population / expiry / interval case.",
		Assumptions: []string{"LastAccess has wall-clock ms resolution inside the implementation; the harness spaces accesses by 3 ms and does not judge pairs whose recorded windows are closer than 2 ms", "keys sharing the storing key's lock shard are exempt on the memory backend's store-triggered path, as the statement allows"},
		Plan:        c13Plan,
		Run:         c13Run,
		Parallel:    4,
		Floors:      map[string]map[string]int64{"quick": {"populations_over_limit": 60, "populations_below_limit": 20, "expiry_cycles_checked": 60, "interval_change_checks": 4}, "thorough": {"populations_over_limit": 3000, "populations_below_limit": 1000, "expiry_cycles_checked": 60, "interval_change_checks": 40}},
	})
}
