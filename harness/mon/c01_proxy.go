package mon

import "verifharness/core"

// placeholder until the proxy rig exists
func c01RunProxy(b core.Batch, r *core.Recorder) {}

func c01ProxyPlan(tier string) []core.Batch { return nil }
