package mon

// C01, part 2 — the same guarantee observed through the real proxy.
//
// Scenario "single-writer": per resource one sequential writer replaces the stored entry
// (Range requests against an origin that ignores Range: every one stores a new, longer or
// shorter version), while readers fetch it plainly, slowly, or hang up mid-body, the
// janitor ticks every millisecond; versions are stored in order, so "a request that starts
// after a replacement completed never receives the replaced body" is checked exactly.
// Scenario "churn": entries expire after a few milliseconds, the origin answers
// revalidations with 304 or a new version at random, two writers per resource; only the
// integrity / pairing oracles apply. Scenario "origin-abort": the origin cuts transfers
// after k of N bytes, k swept.

import (
	"fmt"
	"net/http"
	"strconv"
	"strings"
	"sync"
	"sync/atomic"
	"time"

	"verifharness/core"
	"verifharness/rig"
)

func c01size(res, v int) int { return 1500 + (v*977+res*131)%24000 }

type c01pworld struct {
	mu      sync.Mutex
	ver     map[int]int // resource -> current version
	mode    string
	abortAt atomic.Int64 // origin-abort: cut the body of the next marked transfer after this many bytes (-1 = off)
	rnd     func() int
}

func (w *c01pworld) handler(rw http.ResponseWriter, q *http.Request, rec *rig.OriginReq) {
	var res int
	fmt.Sscanf(strings.TrimPrefix(q.URL.Path, "/r"), "%d", &res)
	w.mu.Lock()
	cur := w.ver[res]
	bump := q.Header.Get("X-Verif-Writer") != "" || cur == 0
	if w.mode == "churn" && q.Header.Get("If-None-Match") != "" && w.rnd()%2 == 0 {
		bump = true
	}
	if bump {
		cur++
		w.ver[res] = cur
	}
	w.mu.Unlock()
	rec.SetNote(fmt.Sprintf("r%d:v%d", res, cur))
	if inm := q.Header.Get("If-None-Match"); inm != "" && inm == rig.ETag(res, cur) {
		rw.Header().Set("ETag", inm)
		rw.WriteHeader(304)
		return
	}
	n := c01size(res, cur)
	h := rw.Header()
	h.Set("ETag", rig.ETag(res, cur))
	h.Set("Last-Modified", rig.LastMod(cur))
	h.Set("Content-Type", rig.CType(res, cur))
	h.Set("X-Verif-Len", strconv.Itoa(n))
	if res%3 != 2 && !(res >= 5000 && res%2 == 0) {
		h.Set("Content-Length", strconv.Itoa(n)) // every third resource (every second in the abort scenario) is sent without a length (chunked)
	}
	h.Set("Cache-Control", "max-age=3600")
	// fields sent on three separate lines (an origin behind intermediaries): the stored value slices have spare
	// capacity, so a response that appended to them in place would write into the stored entry
	for _, v := range []string{"1.1 edge-a", "1.1 edge-b", "1.0 inner"} {
		h.Add("Via", v)
		h.Add("Warning", "199 - \""+v+"\"")
	}
	rw.WriteHeader(200)
	body := rig.Body(res, cur, n)
	cut := int(w.abortAt.Load())
	if cut >= 0 && q.Header.Get("X-Verif-Abort") != "" {
		if cut > n {
			cut = n
		}
		rw.Write(body[:cut])
		if f, ok := rw.(http.Flusher); ok {
			f.Flush()
		}
		panic(http.ErrAbortHandler) // the transfer breaks off here
	}
	// paced, so that stores are in flight while readers read
	for off := 0; off < n; off += 4096 {
		rw.Write(body[off:min(off+4096, n)])
		if off%16384 == 0 {
			time.Sleep(200 * time.Microsecond)
		}
	}
}

type c01presp struct {
	Kind      string  `json:"kind"`
	Status    int     `json:"status"`
	V         int     `json:"version"`
	CallMs    float64 `json:"call_ms"`
	RetMs     float64 `json:"ret_ms"`
	XCache    string  `json:"x_cache"`
	Verdict   string  `json:"body_verdict"`
	Aborted   bool    `json:"aborted_by_client,omitempty"`
	call, ret int64
}

// c01checkResp applies the integrity / pairing oracle to one response for resource res; returns the version served.
func c01checkResp(r *core.Recorder, cs map[string]any, res int, resp *rig.Resp, kind string) (int, string) {
	if resp.Aborted {
		return -1, ""
	}
	if resp.Err != nil {
		// the head arrived and announced a 200 / 206 built from the store, but the transfer ended before the
		// announced length was delivered (or was followed by bytes that do not belong to it): a truncated body.
		// Relayed answers (X-Cache MISS) are not "built from the store" and are C09's business.
		fromStore := resp.Status == 206 || resp.Get("X-Cache") == "HIT" || resp.Get("X-Cache") == "REVALIDATED"
		if (resp.Status == 200 || resp.Status == 206) && resp.HeaderAt != 0 && fromStore && strings.Contains(resp.Err.Error(), "read body") && !strings.Contains(resp.Err.Error(), "timeout") {
			r.Violation("C01", fmt.Sprintf("C01:proxy:body-cut-short:%d", resp.Status), fmt.Sprintf("%d from the store announced Content-Length %s / Content-Range %q, the transfer ended after %d body bytes: %v", resp.Status, resp.Get("Content-Length"), resp.Get("Content-Range"), len(resp.Body), resp.Err), cs,
				map[string]any{"status": resp.Status, "header": resp.Header, "body_len": len(resp.Body), "request_kind": kind})
		}
		return -1, ""
	}
	viol := func(sig, what string) {
		r.Violation("C01", "C01:proxy:"+sig, what, cs, map[string]any{"status": resp.Status, "header": resp.Header, "body_len": len(resp.Body), "head": string(resp.Body[:min(48, len(resp.Body))]), "request_kind": kind})
	}
	switch resp.Status {
	case 200:
		r.Count("proxy_200_checked", 1)
		bv := rig.CheckFull(resp.Body, -1)
		if cl := resp.Get("Content-Length"); cl != "" && cl != strconv.Itoa(len(resp.Body)) {
			viol("length-mismatch:200", fmt.Sprintf("Content-Length %s, %d body bytes (%s)", cl, len(resp.Body), bv))
			return -1, bv.String()
		}
		if bv.Kind != "complete" {
			viol("body-"+bv.Kind+":200", fmt.Sprintf("200 body for resource %d is %s", res, bv))
			return -1, bv.String()
		}
		if bv.R != res {
			viol("foreign-resource:200", fmt.Sprintf("asked for resource %d, body belongs to resource %d", res, bv.R))
			return -1, bv.String()
		}
		if want := c01size(res, bv.V); len(resp.Body) != want {
			viol("truncated-or-extended-version:200", fmt.Sprintf("version %d of resource %d has %d bytes, %d were served", bv.V, res, want, len(resp.Body)))
			return -1, bv.String()
		}
		if resp.Get("Etag") != rig.ETag(res, bv.V) || resp.Get("Last-Modified") != rig.LastMod(bv.V) || resp.Get("Content-Type") != rig.CType(res, bv.V) || resp.Get("X-Verif-Len") != strconv.Itoa(len(resp.Body)) {
			viol("headers-of-another-version:200", fmt.Sprintf("body is version %d, headers say ETag=%s Last-Modified=%s Content-Type=%s X-Verif-Len=%s", bv.V, resp.Get("Etag"), resp.Get("Last-Modified"), resp.Get("Content-Type"), resp.Get("X-Verif-Len")))
			return -1, bv.String()
		}
		return bv.V, bv.String()
	case 206:
		r.Count("proxy_206_checked", 1)
		m := reContentRange.FindStringSubmatch(resp.Get("Content-Range"))
		if m == nil {
			viol("bad-content-range:206", "206 with Content-Range "+resp.Get("Content-Range"))
			return -1, ""
		}
		a, _ := strconv.Atoi(m[1])
		b, _ := strconv.Atoi(m[2])
		tot, _ := strconv.Atoi(m[3])
		bv := rig.CheckBody(resp.Body, a)
		if len(resp.Body) != b-a+1 || resp.Get("Content-Length") != strconv.Itoa(b-a+1) {
			viol("length-mismatch:206", fmt.Sprintf("Content-Range %s, Content-Length %s, %d body bytes", m[0], resp.Get("Content-Length"), len(resp.Body)))
			return -1, bv.String()
		}
		if bv.Kind != "slice" || bv.R != res {
			viol("body-"+bv.Kind+":206", fmt.Sprintf("206 body for resource %d at offset %d is %s", res, a, bv))
			return -1, bv.String()
		}
		if tot != c01size(res, bv.V) || resp.Get("Etag") != rig.ETag(res, bv.V) {
			viol("headers-of-another-version:206", fmt.Sprintf("slice is of version %d (%d bytes), Content-Range total %d, ETag %s", bv.V, c01size(res, bv.V), tot, resp.Get("Etag")))
			return -1, bv.String()
		}
		return bv.V, bv.String()
	}
	return -1, ""
}

func c01RunProxy(b core.Batch, r *core.Recorder) {
	rig.QuietLogs()
	scenario := b.Str("scenario", "single-writer")
	backend := b.Str("backend", "memory")
	mode := rig.Mode(b.Str("transport", "plain"))
	rng := b.Rand("c01-proxy-origin")
	var rmu sync.Mutex
	w := &c01pworld{ver: map[int]int{}, mode: scenario, rnd: func() int { rmu.Lock(); defer rmu.Unlock(); return rng.IntN(1000) }}
	w.abortAt.Store(-1)
	o := rig.StartOrigin(w.handler)
	defer o.Close()
	opts := rig.ProxyOpts{Backend: backend, Interval: time.Millisecond, Shards: b.Int("shards", 16)}
	if scenario == "churn" {
		opts.ForceDefault, opts.DefaultMaxAge = true, 4*time.Millisecond
	}
	if scenario == "reval-storm" {
		// every stored entry is stale at once: each request revalidates (304) or is coalesced onto a revalidation
		// that is under way, so hits are being served while the same entry's metadata is renewed
		opts.ForceDefault, opts.DefaultMaxAge = true, time.Nanosecond
	}
	p := rig.StartProxy(opts)
	defer p.Close()

	switch scenario {
	case "reval-storm":
		for round := 0; round < b.Int("rounds", 4); round++ {
			id := fmt.Sprintf("%s-%s-%s-%d", scenario, backend, mode, round)
			if !r.Case(id, nil) {
				continue
			}
			r.Eval(1)
			cs := map[string]any{"id": id, "scenario": scenario, "backend": backend, "transport": string(mode)}
			resNo := 7000 + round
			target := fmt.Sprintf("/r%d", resNo)
			c01checkResp(r, cs, resNo, rig.Do(p, mode, o.Addr, rig.Req{Target: target}), "prime")
			var wg sync.WaitGroup
			var n atomic.Int64
			for g := 0; g < 8; g++ {
				wg.Add(1)
				go func() {
					defer wg.Done()
					for i := 0; i < b.Int("storm_requests", 150); i++ {
						q := rig.Req{Target: target}
						if i%7 == 3 {
							q.Header = [][2]string{{"Range", "bytes=16-79"}}
						}
						resp := rig.Do(p, mode, o.Addr, q)
						if v, _ := c01checkResp(r, cs, resNo, resp, "storm-get"); v > 0 {
							n.Add(1)
						}
					}
				}()
			}
			wg.Wait()
			r.Count("storm_responses_checked", n.Load())
			r.Nontrivial("reval-storm", backend, string(mode), round)
		}
		r.Sample(map[string]any{"scenario": "reval-storm", "what": "forced lifetime of 1 ns: 8 clients x 150 GETs on one resource; every answer is a revalidated (304) or coalesced hit; integrity of every body and its headers"})
	case "single-writer", "churn":
		resources := b.Int("resources", 3)
		rounds := b.Int("rounds", 6)
		for round := 0; round < rounds; round++ {
			id := fmt.Sprintf("%s-%s-%s-%d", scenario, backend, mode, round)
			if !r.Case(id, nil) {
				continue
			}
			r.Eval(1)
			var mu sync.Mutex
			log := map[int][]c01presp{}
			var wg sync.WaitGroup
			stop := make(chan struct{})
			cs := map[string]any{"id": id, "scenario": scenario, "backend": backend, "transport": string(mode)}
			record := func(res int, kind string, resp *rig.Resp) {
				v, verdict := c01checkResp(r, cs, res, resp, kind)
				mu.Lock()
				log[res] = append(log[res], c01presp{Kind: kind, Status: resp.Status, V: v, CallMs: float64(resp.Call) / 1e6, RetMs: float64(resp.Ret) / 1e6, XCache: resp.Get("X-Cache"), Verdict: verdict, Aborted: resp.Aborted, call: resp.Call, ret: resp.Ret})
				mu.Unlock()
			}
			for res := 1; res <= resources; res++ {
				resNo := round*100 + res
				target := fmt.Sprintf("/r%d", resNo)
				writers := 1
				if scenario == "churn" {
					writers = 2
				}
				// prime the entry, so that in the single-writer scenario readers only ever hit and the writer is
				// the only one that stores
				record(resNo, "prime", rig.Do(p, mode, o.Addr, rig.Req{Target: target}))
				for wi := 0; wi < writers; wi++ {
					wg.Add(1)
					go func() {
						defer wg.Done()
						for i := 0; i < b.Int("writes", 12); i++ {
							resp := rig.Do(p, mode, o.Addr, rig.Req{Target: target, Header: [][2]string{{"Range", "bytes=32-95"}, {"X-Verif-Writer", "1"}}})
							record(resNo, "writer-range", resp)
							time.Sleep(time.Duration(200+i*50) * time.Microsecond)
						}
					}()
				}
				for ri := 0; ri < b.Int("readers", 4); ri++ {
					wg.Add(1)
					rr := b.Rand(fmt.Sprintf("c01p-%d-%d-%d", round, res, ri))
					go func() {
						defer wg.Done()
						for {
							select {
							case <-stop:
								return
							default:
							}
							q := rig.Req{Target: target}
							kind := "get"
							switch rr.IntN(7) {
							case 6:
								if scenario == "churn" {
									// a Range request whose If-Range names a validator the entry never had: the answer is
									// the complete 200 built from the store
									q.Header = [][2]string{{"Range", "bytes=0-9"}, {"If-Range", "\"a-validator-of-long-ago\""}}
									kind = "range-get-if-range-mismatch"
								}
							case 0:
								q.SlowReadEvery, q.SlowReadSleep = 2048, 300*time.Microsecond
								kind = "slow-get"
							case 1:
								q.AbortAfterBody = 1 + rr.IntN(3000)
								kind = "aborting-get"
							case 2:
								if scenario == "churn" {
									// a reader's Range request also re-stores the entry (the origin ignores Range): a second,
									// unordered writer, so it is kept out of the single-writer scenario
									q.Header = [][2]string{{"Range", fmt.Sprintf("bytes=%d-%d", 16*rr.IntN(40), 16*(40+rr.IntN(40))-1)}}
									kind = "range-get"
								}
							}
							resp := rig.Do(p, mode, o.Addr, q)
							record(resNo, kind, resp)
						}
					}()
				}
			}
			// let the writers finish, then stop the readers
			done := make(chan struct{})
			go func() { wg.Wait(); close(done) }()
			waitWriters := time.After(time.Duration(b.Int("round_ms", 400)) * time.Millisecond)
			<-waitWriters
			close(stop)
			<-done
			// ---- staleness (single writer: versions are stored in order)
			overl := 0
			for res, evs := range log {
				var writes []c01presp
				for _, e := range evs {
					if e.Kind == "writer-range" && e.V > 0 {
						writes = append(writes, e)
					}
				}
				for _, e := range evs {
					if e.V <= 0 {
						continue
					}
					for _, wv := range writes {
						if wv.call < e.ret && wv.ret > e.call && e.Kind != "writer-range" {
							overl++
							break
						}
					}
					if scenario != "single-writer" {
						continue
					}
					// every version served to anyone before this request started must not be newer than what it got
					for _, prev := range evs {
						if prev.V > e.V && prev.ret < e.call {
							r.Violation("C01", "C01:proxy:stale-after-replacement:"+backend, fmt.Sprintf("resource %d: version %d had been served (response completed at %.2f ms) before this request started (%.2f ms), yet it received the replaced version %d", res, prev.V, prev.RetMs, e.CallMs, e.V), cs,
								map[string]any{"earlier": prev, "later": e})
							break
						}
					}
				}
			}
			r.Count("proxy_reads_overlapping_writer", int64(overl))
			if overl > 0 {
				r.Nontrivial(scenario, backend, string(mode), round, b.Seed)
			}
			if round == 0 {
				for _, evs := range log {
					r.Sample(map[string]any{"scenario": scenario, "backend": backend, "transport": string(mode), "first_responses": evs[:min(5, len(evs))]})
					break
				}
			}
		}
	case "origin-abort":
		n := 0
		for k := 0; k <= 26000; k += b.Int("stride", 512) {
			n++
			resNo := 5000 + n
			target := fmt.Sprintf("/r%d", resNo)
			id := fmt.Sprintf("abort-%s-%s-%d", backend, mode, k)
			if !r.Case(id, k) {
				continue
			}
			r.Eval(1)
			cs := map[string]any{"id": id, "abort_after_bytes": k, "backend": backend, "transport": string(mode)}
			w.abortAt.Store(int64(k))
			first := rig.Do(p, mode, o.Addr, rig.Req{Target: target, Header: [][2]string{{"X-Verif-Abort", "1"}}, Timeout: 10 * time.Second})
			w.abortAt.Store(-1)
			c01checkResp(r, cs, resNo, first, "get-during-aborted-transfer")
			// whatever happened to the first client, nobody may ever be served the partial body
			for i := 0; i < 3; i++ {
				q := rig.Req{Target: target}
				if i == 2 {
					q.Header = [][2]string{{"Range", "bytes=16-79"}}
				}
				resp := rig.Do(p, mode, o.Addr, q)
				if resp.Err != nil {
					r.Violation("C01", "C01:proxy:unanswered-after-origin-abort", fmt.Sprintf("after a transfer that broke off at byte %d the next request got no response: %v", k, resp.Err), cs, nil)
					break
				}
				c01checkResp(r, cs, resNo, resp, "get-after-aborted-transfer")
			}
			r.Nontrivial("abort", backend, string(mode), k)
			r.Count("origin_abort_points", 1)
		}
		r.Sample(map[string]any{"scenario": "origin-abort", "what": "the origin cuts the body of a cacheable 200 after k bytes (k swept); that request and three later ones are checked"})
	}
}

func c01ProxyPlan(tier string) []core.Batch {
	rounds, stride := 4, 2048
	if tier == "thorough" {
		rounds, stride = 30, 128
	}
	var bs []core.Batch
	for _, be := range []string{"memory", "file"} {
		for _, tr := range []string{"plain", "tunnel"} {
			scs := []string{"single-writer", "churn"}
			if tr == "plain" {
				scs = append(scs, "reval-storm")
			}
			for _, sc := range scs {
				bs = append(bs, core.Batch{Name: fmt.Sprintf("proxy-%s-%s-%s", sc, be, tr), Race: true, TimeoutS: 1800,
					Args: map[string]any{"mode": "proxy", "scenario": sc, "backend": be, "transport": tr, "rounds": rounds}})
			}
		}
		bs = append(bs, core.Batch{Name: "proxy-origin-abort-" + be, TimeoutS: 1800, Args: map[string]any{"mode": "proxy", "scenario": "origin-abort", "backend": be, "transport": "plain", "stride": stride}})
	}
	return bs
}
