package mon

import (
	"fmt"
	"net/http"

	"verifharness/core"
	"verifharness/rig"
)

func smoke(args []string) {
	rig.QuietLogs()
	o := rig.StartOrigin(func(w http.ResponseWriter, r *http.Request, rec *rig.OriginReq) {
		w.Header().Set("Cache-Control", "max-age=60")
		rig.ServeBody(w, 1, 1, 100, nil)
	})
	for _, be := range []string{"memory", "file"} {
		p := rig.StartProxy(rig.ProxyOpts{Backend: be})
		for _, m := range []rig.Mode{rig.Plain, rig.Tunnl} {
			for i := 0; i < 2; i++ {
				r := rig.Do(p, m, o.Addr, rig.Req{Target: "/x?" + string(m) + be})
				fmt.Println(be, m, r.Status, r.Err, r.Get("X-Cache"), r.Get("Cache-Status"), rig.CheckFull(r.Body, 100), "origin reqs:", o.LastSeq())
			}
		}
		p.Close()
	}
}

func init() { core.RegisterAux("smoke", smoke) }
