package mon

// C11 — every tunnel gets a valid host-specific certificate from the configured CA.
//
// API level: generated host:port strings go to the real PrivateCA.GetCertForHost; every
// leaf it returns is verified with the standard library (x509.Verify against the CA pool
// for exactly that host at the current time), its SAN set, validity window and key match
// are checked, reuse and replacement after expiry are checked with leaves the harness
// signs itself, and bursts of concurrent first requests run on the race build.
// Wire level: real CONNECT + TLS handshakes through the proxy; Go's TLS client verifies.

import (
	"crypto"
	"crypto/ecdsa"
	"crypto/elliptic"
	"crypto/rand"
	"crypto/sha256"
	"crypto/tls"
	"crypto/x509"
	"crypto/x509/pkix"
	"fmt"
	"math/big"
	"net"
	"os"
	"path/filepath"
	"strings"
	"sync"
	"time"

	"verifharness/core"
	"verifharness/rig"
)

func c11hosts(b core.Batch, n int) []string {
	rng := b.Rand("c11-hosts")
	var hosts []string
	fixed := []string{"example.com", "Example.COM", "eXaMpLe.CoM", "localhost", "a_b.example.org", "xn--bcher-kva.example", "example.com.", "1example.org", "a-b.c-d.example",
		strings.Repeat("a", 63) + ".example", strings.Repeat("b", 63) + "." + strings.Repeat("c", 63) + "." + strings.Repeat("d", 63) + ".example", "sub.sub.sub.sub.sub.example.net", "x", "test-1.internal", "UPPER.EXAMPLE", "*.wild.example", "exa mple.com", "-lead.example", "trail-.example", "",
		"127.0.0.1", "0.0.0.0", "255.255.255.255", "10.1.2.3", "192.168.0.1", "8.8.8.8", "1.2.3", "256.1.1.1", "01.2.3.4",
		"[::1]", "[2001:db8::1]", "[fe80::1]", "[::]", "[::ffff:1.2.3.4]", "[2001:0db8:0000:0000:0000:0000:0000:0001]", "[fe80::1%eth0]", "[1::2::3]", "::1"}
	ports := []string{"443", "80", "0", "1", "65535", "8443", "31080"}
	for _, h := range fixed {
		hosts = append(hosts, h+":"+ports[len(hosts)%len(ports)])
	}
	hosts = append(hosts, "example.com", "example.com:", ":443", "example.com:abc", "example.com:99999", "example.com:443:1", "[::1]", "[::1]:x")
	letters := "abcdefghijklmnopqrstuvwxyzABCDEFGHIJKLMNOPQRSTUVWXYZ0123456789-_"
	for len(hosts) < n {
		switch rng.IntN(3) {
		case 0: // DNS
			var parts []string
			for l := 0; l < 1+rng.IntN(4); l++ {
				var sb strings.Builder
				for k := 0; k < 1+rng.IntN(12); k++ {
					sb.WriteByte(letters[rng.IntN(len(letters))])
				}
				parts = append(parts, sb.String())
			}
			hosts = append(hosts, fmt.Sprintf("%s.test:%d", strings.Join(parts, "."), rng.IntN(65536)))
		case 1: // IPv4
			hosts = append(hosts, fmt.Sprintf("%d.%d.%d.%d:%d", rng.IntN(256), rng.IntN(256), rng.IntN(256), rng.IntN(256), rng.IntN(65536)))
		default: // IPv6
			ip := make(net.IP, 16)
			for k := range ip {
				if rng.IntN(3) > 0 {
					ip[k] = byte(rng.IntN(256))
				}
			}
			ip[0] = 0x20
			hosts = append(hosts, fmt.Sprintf("[%s]:%d", ip.String(), rng.IntN(65536)))
		}
	}
	return hosts
}

// c11checkLeaf applies every oracle to one returned leaf; returns a signature fragment or "".
func c11checkLeaf(ca *rig.HarnessCA, hostport string, cert *tls.Certificate) (string, string) {
	host, _, err := net.SplitHostPort(hostport)
	if err != nil {
		return "accepted-unsplittable-target", "GetCertForHost accepted a target that is not host:port"
	}
	if cert == nil || len(cert.Certificate) == 0 {
		return "empty-certificate", "nil / empty certificate returned without error"
	}
	leaf, err := x509.ParseCertificate(cert.Certificate[0])
	if err != nil {
		return "unparseable-leaf", err.Error()
	}
	now := time.Now()
	kind := "dns"
	ip := net.ParseIP(host)
	if ip != nil {
		kind = "ipv4"
		if ip.To4() == nil {
			kind = "ipv6"
		}
	}
	opts := x509.VerifyOptions{Roots: ca.Pool, CurrentTime: now, DNSName: host, KeyUsages: []x509.ExtKeyUsage{x509.ExtKeyUsageServerAuth}}
	if _, err := leaf.Verify(opts); err != nil {
		cls := "does-not-verify"
		switch {
		case strings.Contains(err.Error(), "expired") || strings.Contains(err.Error(), "not yet valid"):
			cls = "outside-validity"
		case strings.Contains(err.Error(), "unknown authority") || strings.Contains(err.Error(), "signed by"):
			cls = "not-chained-to-ca"
		case strings.Contains(err.Error(), "not valid for") || strings.Contains(err.Error(), "doesn't contain any IP SANs") || strings.Contains(err.Error(), "valid for"):
			cls = "does-not-name-host"
		}
		return cls + ":" + kind, fmt.Sprintf("x509.Verify for %q: %v", host, err)
	}
	if n := len(leaf.DNSNames) + len(leaf.IPAddresses) + len(leaf.EmailAddresses) + len(leaf.URIs); n != 1 {
		return "names-more-than-the-host:" + kind, fmt.Sprintf("SAN set has %d entries: DNS=%v IP=%v", n, leaf.DNSNames, leaf.IPAddresses)
	}
	if now.Before(leaf.NotBefore) || now.After(leaf.NotAfter) {
		return "outside-validity:" + kind, fmt.Sprintf("NotBefore=%v NotAfter=%v now=%v", leaf.NotBefore, leaf.NotAfter, now)
	}
	if leaf.IsCA {
		return "leaf-is-ca", "the issued leaf is itself a CA"
	}
	// the private key handed out must match the leaf's public key
	signer, ok := cert.PrivateKey.(crypto.Signer)
	if !ok {
		return "key-not-a-signer", fmt.Sprintf("%T", cert.PrivateKey)
	}
	nonce := sha256.Sum256([]byte(hostport + now.String()))
	sig, err := signer.Sign(rand.Reader, nonce[:], crypto.SHA256)
	if err != nil {
		return "key-cannot-sign", err.Error()
	}
	pub, ok := leaf.PublicKey.(*ecdsa.PublicKey)
	if ok {
		if !ecdsa.VerifyASN1(pub, nonce[:], sig) {
			return "key-does-not-match-leaf", "a nonce signed with the returned private key does not verify under the leaf's public key"
		}
	} else if eq, ok := signer.Public().(interface{ Equal(crypto.PublicKey) bool }); !ok || !eq.Equal(leaf.PublicKey) {
		return "key-does-not-match-leaf", "the returned private key's public half is not the leaf's public key"
	}
	if cert.Leaf != nil && !cert.Leaf.Equal(leaf) {
		return "leaf-field-differs-from-chain", "tls.Certificate.Leaf is not the certificate in the chain"
	}
	return "", kind
}

// c11signLeaf makes a leaf for host signed by the harness CA key with the given validity (for expiry tests).
func c11signLeaf(ca *rig.HarnessCA, host string, notBefore, notAfter time.Time) *tls.Certificate {
	priv, _ := ecdsa.GenerateKey(elliptic.P256(), rand.Reader)
	serial, _ := rand.Int(rand.Reader, new(big.Int).Lsh(big.NewInt(1), 100))
	tpl := x509.Certificate{SerialNumber: serial, Subject: pkix.Name{Organization: []string{"verif-expired"}}, NotBefore: notBefore, NotAfter: notAfter,
		KeyUsage: x509.KeyUsageDigitalSignature, ExtKeyUsage: []x509.ExtKeyUsage{x509.ExtKeyUsageServerAuth}, BasicConstraintsValid: true}
	if ip := net.ParseIP(host); ip != nil {
		tpl.IPAddresses = []net.IP{ip}
	} else {
		tpl.DNSNames = []string{host}
	}
	der, err := x509.CreateCertificate(rand.Reader, &tpl, ca.Cert, &priv.PublicKey, ca.Key)
	if err != nil {
		return nil
	}
	leaf, _ := x509.ParseCertificate(der)
	return &tls.Certificate{Certificate: [][]byte{der}, PrivateKey: priv, Leaf: leaf}
}

func c11Run(b core.Batch, r *core.Recorder) {
	rig.QuietLogs()
	ca := rig.SharedCA()
	switch b.Str("part", "api") {
	case "api":
		hosts := c11hosts(b, b.Int("n", 400))
		for i, hp := range hosts {
			id := fmt.Sprintf("h%d", i)
			if !r.Case(id, hp) {
				continue
			}
			r.Eval(1)
			cert, err := ca.CA.GetCertForHost(hp)
			if err != nil {
				r.Count("targets_refused", 1)
				continue
			}
			cs := map[string]any{"id": id, "target": hp}
			sig, detail := c11checkLeaf(ca, hp, cert)
			if sig != "" {
				r.Violation("C11", "C11:leaf:"+sig, fmt.Sprintf("target %q: %s", hp, detail), cs, nil)
				continue
			}
			r.Count("accepted_"+detail, 1)
			r.Nontrivial(hp)
			// reuse while valid
			again, err := ca.CA.GetCertForHost(hp)
			if err != nil || again != cert {
				r.Violation("C11", "C11:valid-leaf-not-reused", fmt.Sprintf("target %q: a second request did not return the cached certificate (err=%v)", hp, err), cs, nil)
			}
			// reuse is per host: another port of the same host gets the same certificate
			if h, port, err := net.SplitHostPort(hp); err == nil {
				other := "8443"
				if port == other {
					other = "443"
				}
				if c2, err := ca.CA.GetCertForHost(net.JoinHostPort(h, other)); err != nil || c2 != cert {
					r.Violation("C11", "C11:not-reused-across-ports", fmt.Sprintf("host %q: port %s and port %s were given different certificates (err=%v)", h, port, other, err), cs, nil)
				}
			}
			if i < 3 {
				r.Sample(map[string]any{"target": hp, "kind": detail})
			}
		}
	case "spellings":
		// two spellings of one host, in both orders, each on a CA instance that has issued nothing: whatever is shared
		// between them, every returned leaf must name the host as it was written in that request
		pairs := [][2]string{{"svc.corp.example.", "svc.corp.example"}, {"svc.corp.example", "svc.corp.example."}, {"Mixed.Case.example", "mixed.case.example"}, {"mixed.case.example", "MIXED.CASE.EXAMPLE"},
			{"UPPER.example.", "upper.example"}, {"[2001:DB8::A]", "[2001:db8::a]"}, {"[2001:db8:0:0::a]", "[2001:db8::a]"}, {"dot.example.", "DOT.example."}}
		for i, pr := range pairs {
			id := fmt.Sprintf("sp%d", i)
			if !r.Case(id, pr) {
				continue
			}
			r.Eval(1)
			fca, err := ca.Fresh()
			if err != nil {
				r.NotJudged("cannot-reload-ca")
				continue
			}
			cs := map[string]any{"id": id, "first": pr[0] + ":443", "then": pr[1] + ":443"}
			judged := 0
			for k, h := range pr {
				hp := h + ":443"
				cert, err := fca.CA.GetCertForHost(hp)
				if err != nil {
					continue // a refused spelling is not judged
				}
				judged++
				if sig, detail := c11checkLeaf(fca, hp, cert); sig != "" {
					r.Violation("C11", "C11:spelling:"+[]string{"first", "second"}[k]+":"+sig, fmt.Sprintf("requests for %q then %q: the leaf returned for %q: %s", pr[0], pr[1], h, detail), cs, nil)
					break
				}
			}
			if judged == 2 {
				r.Count("spelling_pairs", 1)
				r.Nontrivial("spelling", pr[0], pr[1])
			}
		}
		r.Sample(map[string]any{"part": "spellings", "what": "trailing dot / letter case / IPv6 text form variants of one host requested one after the other on a fresh CA instance"})
	case "expiry":
		hosts := []string{"expired.example", "EXPIRED-2.example", "127.0.0.9", "::9", "a_b.expired.test"}
		margins := []time.Duration{time.Second, time.Minute, time.Hour, 24 * time.Hour, 10 * 365 * 24 * time.Hour}
		n := 0
		for _, h := range hosts {
			for _, m := range margins {
				for _, conc := range []int{1, 16} {
					n++
					host := fmt.Sprintf("%d-%s", n, h)
					if ip := net.ParseIP(h); ip != nil {
						ip = append(net.IP(nil), ip...)
						ip[len(ip)-2] = byte(n)
						host = ip.String()
					}
					hp := net.JoinHostPort(host, "443")
					id := fmt.Sprintf("x%d", n)
					if !r.Case(id, map[string]any{"target": hp, "expired_by": m.String(), "concurrent": conc}) {
						continue
					}
					r.Eval(1)
					old := c11signLeaf(ca, host, time.Now().Add(-m-time.Hour), time.Now().Add(-m))
					if old == nil {
						r.NotJudged("cannot-sign-test-leaf")
						continue
					}
					ca.CA.VerifPutCert(host, old)
					cs := map[string]any{"id": id, "target": hp, "expired_by": m.String(), "concurrent": conc}
					var wg sync.WaitGroup
					got := make([]*tls.Certificate, conc)
					errs := make([]error, conc)
					for g := 0; g < conc; g++ {
						wg.Add(1)
						go func() {
							defer wg.Done()
							got[g], errs[g] = ca.CA.GetCertForHost(hp)
						}()
					}
					wg.Wait()
					r.Count("expiry_cases", 1)
					r.Nontrivial("expiry", h, m, conc)
					bad := false
					for g := 0; g < conc && !bad; g++ {
						if errs[g] != nil {
							r.Violation("C11", "C11:expired-leaf:request-failed", fmt.Sprintf("with an expired cached leaf the request failed: %v", errs[g]), cs, nil)
							bad = true
						} else if got[g] == old {
							r.Violation("C11", "C11:expired-leaf-served-again", fmt.Sprintf("the cached leaf expired %v ago and was returned again", m), cs, nil)
							bad = true
						} else if sig, detail := c11checkLeaf(ca, hp, got[g]); sig != "" {
							r.Violation("C11", "C11:leaf-after-expiry:"+sig, detail, cs, nil)
							bad = true
						}
					}
					if bad {
						continue
					}
					a1, _ := ca.CA.GetCertForHost(hp)
					a2, _ := ca.CA.GetCertForHost(hp)
					if a1 == nil || a1 != a2 || a1 == old {
						r.Violation("C11", "C11:replacement-not-reused", "after replacing an expired leaf two further requests did not return one stable valid certificate", cs, nil)
					}
				}
			}
		}
		r.Sample(map[string]any{"part": "expiry", "what": "a leaf signed by the harness with the CA key, NotAfter = now - m, is placed in the per-host cache; 1 or 16 goroutines then ask for that host"})
	case "burst":
		// many tunnels to a new host at once, on a CA instance that has not issued anything yet (the very first
		// issuance is where lazily created shared state would be set up) and on one that has
		rounds := b.Int("rounds", 4)
		for round := 0; round < rounds; round++ {
			for i, conc := range []int{2, 4, 8, 16, 32, 64} {
				for j, h := range []string{"burst.example", "127.1.%d.%d", "[2001:db8::%d:%d]", "distinct-hosts"} {
					host := fmt.Sprintf("%d-%d-%d-%s", round, i, j, h)
					if strings.Contains(h, "%d") {
						host = fmt.Sprintf(h, i+1+10*round, j+1)
					}
					hp := host + ":443"
					id := fmt.Sprintf("b%d-%d-%d", round, i, j)
					freshCA := round%2 == 0
					if !r.Case(id, map[string]any{"target": hp, "concurrent": conc, "fresh_ca": freshCA}) {
						continue
					}
					r.Eval(1)
					bca := ca
					if freshCA {
						f, err := ca.Fresh()
						if err != nil {
							r.NotJudged("cannot-reload-ca")
							continue
						}
						bca = f
					}
					targets := make([]string, conc)
					for g := range targets {
						targets[g] = hp
						if h == "distinct-hosts" {
							targets[g] = fmt.Sprintf("d%d-%s", g, hp) // h is a DNS form here
						}
					}
					var wg sync.WaitGroup
					got := make([]*tls.Certificate, conc)
					errs := make([]error, conc)
					start := make(chan struct{})
					for g := 0; g < conc; g++ {
						wg.Add(1)
						go func() {
							defer wg.Done()
							<-start
							got[g], errs[g] = bca.CA.GetCertForHost(targets[g])
						}()
					}
					close(start)
					wg.Wait()
					r.Count("burst_cases", 1)
					if freshCA {
						r.Count("burst_cases_on_a_ca_that_had_issued_nothing", 1)
					}
					r.Nontrivial("burst", hp, conc, freshCA)
					cs := map[string]any{"id": id, "target": hp, "concurrent": conc, "fresh_ca": freshCA, "distinct_hosts": h == "distinct-hosts"}
					for g := 0; g < conc; g++ {
						if errs[g] != nil {
							r.Violation("C11", "C11:burst:request-failed", fmt.Sprintf("%v", errs[g]), cs, nil)
							break
						}
						if sig, detail := c11checkLeaf(bca, targets[g], got[g]); sig != "" {
							r.Violation("C11", "C11:burst:leaf:"+sig, detail, cs, nil)
							break
						}
					}
					// afterwards every target has one stable certificate, and a further new host still works
					for _, t := range []string{targets[0], targets[conc-1]} {
						a1, _ := bca.CA.GetCertForHost(t)
						a2, _ := bca.CA.GetCertForHost(t)
						if a1 == nil || a1 != a2 {
							r.Violation("C11", "C11:burst:not-stable-afterwards", "after a burst of first requests two further requests did not return the same certificate", cs, nil)
							break
						}
					}
					later := fmt.Sprintf("later-%d-%d-%d.example:443", round, i, j)
					if c, err := bca.CA.GetCertForHost(later); err != nil {
						r.Violation("C11", "C11:burst:new-host-fails-afterwards", fmt.Sprintf("after the burst a request for another new host fails: %v", err), cs, nil)
					} else if sig, detail := c11checkLeaf(bca, later, c); sig != "" {
						r.Violation("C11", "C11:burst:leaf-afterwards:"+sig, detail, cs, nil)
					}
				}
			}
		}
		r.Sample(map[string]any{"part": "burst", "what": "2..64 goroutines request a certificate for the same new host (or for 2..64 distinct new hosts) at the same instant, alternately on a CA instance that has issued nothing yet and on the shared one (race build)"})
	case "cakinds":
		// the configured CA may carry any common key type (the README has operators create an RSA one)
		wd, _ := os.Getwd()
		for _, kind := range []string{"p256", "p384", "p521", "rsa2048", "rsa3072", "ed25519", "p256+bundle", "rsa2048+bundle"} {
			kca, err := rig.NewHarnessCAKind(filepath.Join(wd, "ca-"+kind), kind)
			id := "k-" + kind
			if !r.Case(id, kind) {
				continue
			}
			r.Eval(1)
			cs := map[string]any{"id": id, "ca_key_type": kind}
			if err != nil {
				r.Count("ca_kinds_refused_at_load", 1)
				r.NotJudged("ca-kind-refused-at-load:" + kind)
				continue
			}
			r.Count("ca_kinds", 1)
			r.Nontrivial("cakind", kind)
			bad := false
			for _, hp := range []string{"kind.example:443", "10.1.2.3:8443", "[2001:db8::5]:443"} {
				cert, err := kca.CA.GetCertForHost(hp)
				if err != nil {
					r.Violation("C11", "C11:ca-key-type:request-failed:"+kind, fmt.Sprintf("with a %s CA no certificate is issued for %s: %v", kind, hp, err), cs, nil)
					bad = true
					break
				}
				if sig, detail := c11checkLeaf(kca, hp, cert); sig != "" {
					r.Violation("C11", "C11:ca-key-type:leaf:"+sig+":"+kind, detail, cs, nil)
					bad = true
					break
				}
			}
			if bad {
				continue
			}
			p := rig.StartProxy(rig.ProxyOpts{CA: kca})
			for _, t := range [][2]string{{"wire-kind.example:443", "wire-kind.example"}, {"127.0.0.1:443", "127.0.0.1"}, {"[::1]:443", "::1"}} {
				tn, err := rig.OpenTunnel(p.Addr, t[0], t[1], kca.Pool)
				if err != nil {
					r.Violation("C11", "C11:ca-key-type:handshake-failed:"+kind, fmt.Sprintf("with a %s CA the tunnel to %s cannot be established / verified: %v", kind, t[0], err), cs, nil)
					break
				}
				tn.Close()
				r.Count("handshakes_verified", 1)
			}
			p.Close()
		}
		r.Sample(map[string]any{"part": "cakinds", "what": "CA key types p256, p384, p521, rsa2048, rsa3072, ed25519: API-level leaf checks for a DNS, IPv4 and IPv6 target and verified TLS handshakes through a proxy configured with that CA"})
	case "wire":
		p := rig.StartProxy(rig.ProxyOpts{})
		defer p.Close()
		targets := []struct{ target, serverName string }{
			{"127.0.0.1:443", "127.0.0.1"}, {"[::1]:443", "::1"}, {"example.test:443", "example.test"}, {"Example.TEST:8443", "example.test"}, {"a_b.example.test:1", "a_b.example.test"},
			{"xn--bcher-kva.example:443", "xn--bcher-kva.example"}, {"10.20.30.40:65535", "10.20.30.40"}, {"[2001:db8::7]:443", "2001:db8::7"}, {strings.Repeat("l", 63) + ".example:443", strings.Repeat("l", 63) + ".example"},
		}
		rng := b.Rand("c11-wire")
		for i := 0; i < b.Int("n", 20); i++ {
			switch i % 3 {
			case 0:
				h := fmt.Sprintf("w%d.wire.test", rng.IntN(1000000))
				targets = append(targets, struct{ target, serverName string }{fmt.Sprintf("%s:%d", h, 1+rng.IntN(65535)), h})
			case 1:
				h := fmt.Sprintf("%d.%d.%d.%d", 1+rng.IntN(223), rng.IntN(256), rng.IntN(256), rng.IntN(256))
				targets = append(targets, struct{ target, serverName string }{h + ":443", h})
			default:
				h := fmt.Sprintf("2001:db8::%x:%x", rng.IntN(65536), rng.IntN(65536))
				targets = append(targets, struct{ target, serverName string }{"[" + h + "]:443", h})
			}
		}
		for i, t := range targets {
			id := fmt.Sprintf("w%d", i)
			if !r.Case(id, t.target) {
				continue
			}
			r.Eval(1)
			cs := map[string]any{"id": id, "target": t.target, "server_name": t.serverName}
			t1, err := rig.OpenTunnel(p.Addr, t.target, t.serverName, p.CA.Pool)
			if err != nil {
				if _, refused := err.(*rig.ConnectRefused); refused {
					r.Count("targets_refused", 1)
					continue
				}
				cls := "handshake-failed"
				if strings.Contains(err.Error(), "certificate") {
					cls = "certificate-rejected-by-client"
				}
				r.Violation("C11", "C11:wire:"+cls, fmt.Sprintf("CONNECT %s was accepted but the TLS client (verifying against the CA for %q) failed: %v", t.target, t.serverName, err), cs, nil)
				continue
			}
			leaf1 := t1.Leaf
			t1.Close()
			t2, err := rig.OpenTunnel(p.Addr, t.target, t.serverName, p.CA.Pool)
			if err != nil {
				r.Violation("C11", "C11:wire:second-tunnel-failed", err.Error(), cs, nil)
				continue
			}
			if leaf1 == nil || t2.Leaf == nil || !leaf1.Equal(t2.Leaf) {
				r.Violation("C11", "C11:wire:leaf-not-reused", "two tunnels to the same host were presented different certificates", cs, nil)
			}
			t2.Close()
			r.Count("handshakes_verified", 2)
			r.Nontrivial("wire", t.target)
		}
		// the leaf names the CONNECT target, whatever the client's TLS hello says: another server name, or none
		for i, t := range []struct{ target, host, sni string }{
			{"192.0.2.7:8443", "192.0.2.7", "service.example"}, {"sni-a.example:443", "sni-a.example", "sni-b.example"}, {"sni-c.example:443", "sni-c.example", ""},
			{"[2001:db8::77]:443", "2001:db8::77", "v6-front.example"}, {"sni-d.example:443", "sni-d.example", "SNI-D.example"}, {"10.9.8.7:443", "10.9.8.7", ""},
		} {
			id := fmt.Sprintf("sni%d", i)
			if !r.Case(id, t) {
				continue
			}
			r.Eval(1)
			cs := map[string]any{"id": id, "connect_target": t.target, "client_sni": t.sni}
			pt, err := rig.ConnectOnly(p.Addr, t.target)
			if err != nil {
				r.NotJudged("sni-connect-refused")
				continue
			}
			leaf, err := pt.HandshakeAs(t.sni)
			if err != nil {
				r.Violation("C11", "C11:wire:sni-differs:handshake-failed", fmt.Sprintf("CONNECT %s with SNI %q: %v", t.target, t.sni, err), cs, nil)
				continue
			}
			r.Count("handshakes_with_another_sni", 1)
			r.Nontrivial("sni", t.target, t.sni)
			opts := x509.VerifyOptions{Roots: p.CA.Pool, DNSName: t.host, KeyUsages: []x509.ExtKeyUsage{x509.ExtKeyUsageServerAuth}}
			if _, err := leaf.Verify(opts); err != nil {
				r.Violation("C11", "C11:wire:sni-differs:leaf-does-not-name-the-connect-target", fmt.Sprintf("CONNECT %s with SNI %q: the presented certificate (DNS=%v IP=%v) does not verify for %q: %v", t.target, t.sni, leaf.DNSNames, leaf.IPAddresses, t.host, err), cs, nil)
			}
		}
		// a leaf that expires while the proxy keeps running, after an earlier tunnel to the same target was served
		// with it: the next tunnel must be given a certificate that is valid then
		{
			type sl struct{ target, host string }
			sls := []sl{{"short-lived.example:443", "short-lived.example"}, {"10.66.1.2:8443", "10.66.1.2"}}
			okFirst := map[string]bool{}
			for _, x := range sls {
				leaf := c11signLeaf(p.CA, x.host, time.Now().Add(-time.Minute), time.Now().Add(2500*time.Millisecond))
				if leaf == nil {
					continue
				}
				p.CA.CA.VerifPutCert(x.host, leaf)
				if t1, err := rig.OpenTunnel(p.Addr, x.target, x.host, p.CA.Pool); err == nil {
					okFirst[x.target] = t1.Leaf != nil && t1.Leaf.Equal(leaf.Leaf)
					t1.Close()
				}
			}
			time.Sleep(2800 * time.Millisecond)
			for i, x := range sls {
				id := fmt.Sprintf("exp-wire%d", i)
				if !r.Case(id, x.target) {
					continue
				}
				r.Eval(1)
				if !okFirst[x.target] {
					r.NotJudged("short-lived-leaf-not-presented-first")
					continue
				}
				cs := map[string]any{"id": id, "target": x.target}
				t2, err := rig.OpenTunnel(p.Addr, x.target, x.host, p.CA.Pool)
				r.Count("tunnels_after_leaf_expiry", 1)
				r.Nontrivial("expiry-wire", x.target)
				if err != nil {
					r.Violation("C11", "C11:wire:expired-leaf-presented-again", fmt.Sprintf("an earlier tunnel to %s was served a leaf that has expired since; the next tunnel fails verification: %v", x.target, err), cs, nil)
					continue
				}
				t2.Close()
				r.Count("handshakes_verified", 1)
			}
		}
		// overlapping tunnels to different hosts: each tunnel must be served the certificate of ITS target, also
		// when other tunnels are set up between its CONNECT and its handshake, and when many handshake at once
		nov := b.Int("overlaps", 12)
		for i := 0; i < nov; i++ {
			id := fmt.Sprintf("o%d", i)
			k := 2 + i%4
			if !r.Case(id, map[string]any{"overlapping_tunnels": k}) {
				continue
			}
			r.Eval(1)
			cs := map[string]any{"id": id, "overlapping_tunnels": k, "staged": i%2 == 0}
			names := make([]string, k)
			targs := make([]string, k)
			for j := range names {
				switch (i + j) % 3 {
				case 0:
					names[j] = fmt.Sprintf("ov%d-%d.overlap.test", i, j)
					targs[j] = names[j] + ":443"
				case 1:
					names[j] = fmt.Sprintf("10.77.%d.%d", i, j+1)
					targs[j] = names[j] + ":443"
				default:
					names[j] = fmt.Sprintf("2001:db8:77::%x:%x", i+1, j+1)
					targs[j] = "[" + names[j] + "]:443"
				}
			}
			pend := make([]*rig.PendingTunnel, k)
			okc := true
			for j := range pend {
				pt, err := rig.ConnectOnly(p.Addr, targs[j])
				if err != nil {
					okc = false
					break
				}
				pend[j] = pt
			}
			if !okc {
				for _, pt := range pend {
					if pt != nil {
						pt.Close()
					}
				}
				r.NotJudged("overlap-connect-refused")
				continue
			}
			errs := make([]error, k)
			if i%2 == 0 {
				// staged: all CONNECTs answered first, then the handshakes in reverse order
				for j := k - 1; j >= 0; j-- {
					t, err := pend[j].Handshake(names[j], p.CA.Pool)
					errs[j] = err
					if t != nil {
						t.Close()
					}
				}
			} else {
				var wg sync.WaitGroup
				for j := range pend {
					wg.Add(1)
					go func() {
						defer wg.Done()
						t, err := pend[j].Handshake(names[j], p.CA.Pool)
						errs[j] = err
						if t != nil {
							t.Close()
						}
					}()
				}
				wg.Wait()
			}
			r.Count("overlapping_tunnel_groups", 1)
			r.Nontrivial("overlap", i, k)
			for j, err := range errs {
				if err != nil {
					cls := "handshake-failed"
					if strings.Contains(err.Error(), "certificate") {
						cls = "certificate-of-another-tunnel-or-invalid"
					}
					r.Violation("C11", "C11:wire:overlap:"+cls, fmt.Sprintf("%d tunnels set up at once; the tunnel to %s failed verification for %q: %v", k, targs[j], names[j], err), cs, nil)
					break
				}
				r.Count("handshakes_verified", 1)
			}
		}
		r.Sample(map[string]any{"part": "wire", "targets": len(targets), "what": "CONNECT + TLS handshake with RootCAs = CA pool and ServerName = host; twice per target"})
	}
}

func c11Plan(tier string, seed int64) []core.Batch {
	n, w, rounds := 500, 21, 4
	if tier == "thorough" {
		n, w, rounds = 30000, 1000, 40
	}
	return []core.Batch{
		{Name: "api", TimeoutS: 1800, Args: map[string]any{"part": "api", "n": n}},
		{Name: "expiry", Race: true, TimeoutS: 1800, Args: map[string]any{"part": "expiry"}},
		{Name: "spellings", TimeoutS: 1800, Args: map[string]any{"part": "spellings"}},
		{Name: "burst", Race: true, TimeoutS: 1800, Args: map[string]any{"part": "burst", "rounds": rounds}},
		{Name: "cakinds", TimeoutS: 1800, Args: map[string]any{"part": "cakinds"}},
		{Name: "wire", TimeoutS: 1800, Args: map[string]any{"part": "wire", "n": w, "overlaps": w/2 + 2}},
	}
}

func init() {
	core.Register(&core.Monitor{
		ID:    "C11",
		Level: "exploration",
		Rule: "API level: 55 fixed host:port forms (case mixes, trailing dot, underscore, punycode, 63-char labels, wildcard, spaces, IPv4 edge values, bracketed IPv6 incl. zone / v4-mapped / malformed, ports 0..65535 and malformed) plus seeded random DNS / IPv4 / IPv6 targets through the real GetCertForHost; every returned leaf: x509.Verify against the CA pool for exactly that host now, exactly one SAN, validity window, private key signs a nonce the leaf key verifies, second call returns the same pointer; " +
			"expiry: harness-signed leaves with NotAfter = now - {1 s, 1 min, 1 h, 1 d, 10 y} placed in the cache, then 1 or 16 concurrent requests; bursts of 2..64 concurrent first requests for one new host or for as many distinct new hosts, alternately on a CA instance that has issued nothing yet and on a used one (race build), followed by a request for a further new host; CA key types p256/p384/p521/rsa2048/rsa3072/ed25519 and CA certificate files that are bundles (issuing CA first) (leaf checks + handshakes through a proxy configured with that CA); spellings: trailing-dot / letter-case / IPv6 text variants of one host requested one after the other on a fresh CA instance, each leaf must name the host as written in its request; wire: a harness-signed leaf valid for 2.5 s is presented on a first tunnel, and the tunnel opened after it has expired must get a valid one; CONNECT + TLS handshakes verified by Go's TLS client, twice per target; tunnels whose TLS hello names another host than the CONNECT target, or none (the leaf must still name the target); groups of 2-5 tunnels to different hosts whose CONNECTs are all answered before any handshake starts (handshakes then in reverse order, or all at once). Non-trivial = distinct accepted target / expiry case / burst / handshake target.",
		Assumptions: []string{"targets the CA refuses are counted, not judged", "x509.Verify and crypto/tls of the Go standard library are the independent oracle"},
		Plan:        c11Plan,
		Run:         c11Run,
		Parallel:    4,
		Floors: map[string]map[string]int64{"quick": {"accepted_dns": 50, "accepted_ipv4": 50, "accepted_ipv6": 50, "expiry_cases": 40, "burst_cases": 90, "burst_cases_on_a_ca_that_had_issued_nothing": 40, "ca_kinds": 8, "handshakes_verified": 40, "overlapping_tunnel_groups": 10, "spelling_pairs": 4, "tunnels_after_leaf_expiry": 2},
			"thorough": {"accepted_dns": 5000, "accepted_ipv4": 5000, "accepted_ipv6": 5000, "expiry_cases": 40, "burst_cases": 900, "burst_cases_on_a_ca_that_had_issued_nothing": 400, "ca_kinds": 8, "handshakes_verified": 1500, "overlapping_tunnel_groups": 400, "spelling_pairs": 4, "tunnels_after_leaf_expiry": 2}},
	})
}
