package mon

// C09 — cache-side trouble never turns a good origin answer into an error.
//
// Fault-enumeration monitor: every case has a healthy origin; a fault is placed inside the
// proxy's cache side (full cache, zero budget, empty body, entry vanishing at a chosen
// point, cache directory sabotage, write failure after exactly n bytes via RLIMIT_FSIZE)
// and the client must still receive the origin's answer, complete, within the watchdog.

import (
	"fmt"
	"math/rand"
	"net/http"
	"os"
	"path/filepath"
	"strings"
	"sync"
	"sync/atomic"
	"syscall"
	"time"

	"reservoir/cache"
	"reservoir/utils/verifhook"
	"verifharness/core"
	"verifharness/rig"
)

type c09world struct {
	mu     sync.Mutex
	sizes  map[string]int
	ver    map[string]int
	onReq  map[string]func(q *http.Request) // runs inside the origin handler before answering
	hookMu sync.Mutex
	onHook map[string]func() // per key hex, for proxy.serve.cached / fetch.dedup.afterDo
}

func (w *c09world) handler(rw http.ResponseWriter, q *http.Request, rec *rig.OriginReq) {
	id := strings.Trim(q.URL.Path, "/")
	w.mu.Lock()
	size, ok := w.sizes[id]
	f := w.onReq[id]
	ver := w.ver[id]
	if ver == 0 {
		ver = 1
	}
	w.mu.Unlock()
	if !ok {
		rw.WriteHeader(599)
		return
	}
	rec.SetNote(id)
	if f != nil {
		f(q)
	}
	if inm := q.Header.Get("If-None-Match"); inm != "" && inm == rig.ETag(9, ver) {
		rw.Header().Set("ETag", inm)
		rw.WriteHeader(304)
		return
	}
	rig.ServeBody(rw, 9, ver, size, map[string]string{"Cache-Control": "max-age=3600"})
}

type c09case struct {
	ID      string `json:"id"`
	Fault   string `json:"fault"`
	Backend string `json:"backend"`
	Shards  int    `json:"shards"`
	Size    int    `json:"body_size"`
	N       int    `json:"param,omitempty"`
	Mode    string `json:"transport"`
	Range   bool   `json:"with_range_header,omitempty"` // the client asks for bytes=0-0: the request takes the non-coalesced path
}

func c09bodyClass(n int) string {
	switch {
	case n == 0:
		return "empty-body"
	case n == 1:
		return "1-byte"
	case n <= 4096:
		return "small"
	}
	return "large"
}

func setFsizeLimit(n uint64) (restore func(), err error) {
	var old syscall.Rlimit
	if err := syscall.Getrlimit(syscall.RLIMIT_FSIZE, &old); err != nil {
		return nil, err
	}
	nl := syscall.Rlimit{Cur: n, Max: old.Max}
	if err := syscall.Setrlimit(syscall.RLIMIT_FSIZE, &nl); err != nil {
		return nil, err
	}
	return func() { syscall.Setrlimit(syscall.RLIMIT_FSIZE, &old) }, nil
}

func c09one(r *core.Recorder, w *c09world, o *rig.Origin, c c09case) {
	r.Eval(1)
	mode := rig.Mode(c.Mode)
	opts := rig.ProxyOpts{Backend: c.Backend, Shards: c.Shards}
	wd, _ := os.Getwd()
	dir := filepath.Join(wd, "c09cache", c.ID)
	opts.Dir = dir
	switch c.Fault {
	case "cache-full-tiny-limit":
		opts.Max = int64(max(c.Size/2, 1))
	case "cache-full-pinned":
		opts.Max = 300
	case "budget-zero":
		z := 0
		opts.Budget = &z
	}
	p := rig.StartProxy(opts)
	defer p.Close()
	w.mu.Lock()
	w.sizes[c.ID] = c.Size
	w.ver[c.ID] = 1
	w.mu.Unlock()
	target := "/" + c.ID
	hr, _ := http.NewRequest("GET", "http://"+o.Addr+target, nil)
	key := cache.MakeFromRequest(hr)
	wantVer := 1
	prep := func() bool {
		pre := rig.Do(p, mode, o.Addr, rig.Req{Target: target})
		return pre.Err == nil && pre.Status == 200
	}
	var restore func()
	sequence := []rig.Req{{Target: target, Timeout: 10 * time.Second}}
	switch c.Fault {
	case "none", "cache-full-tiny-limit", "budget-zero", "empty-or-plain":
		// the fault is in the configuration / body size; two requests in a row
		sequence = append(sequence, rig.Req{Target: target})
	case "cache-full-pinned":
		// fill the cache with entries (other keys) first, so that the store of our key finds it full
		for i := 0; i < 4; i++ {
			fid := fmt.Sprintf("%s-fill%d", c.ID, i)
			w.mu.Lock()
			w.sizes[fid] = 200
			w.mu.Unlock()
			rig.Do(p, mode, o.Addr, rig.Req{Target: "/" + fid})
		}
		sequence = append(sequence, rig.Req{Target: target})
	case "vanish-during-revalidation":
		if !prep() {
			r.NotJudged("preparation-failed")
			return
		}
		p.P.VerifCacheSetExpires(key, time.Now().Add(-time.Hour))
		w.mu.Lock()
		w.onReq[c.ID] = func(q *http.Request) {
			if q.Header.Get("If-None-Match") != "" {
				p.P.VerifCacheDelete(key) // the entry vanishes while the origin holds the conditional request
			}
		}
		w.mu.Unlock()
	case "vanish-after-304-renewal":
		// the 304 has renewed the entry's lifetime; before the fetcher reads the entry back it is evicted
		if !prep() {
			r.NotJudged("preparation-failed")
			return
		}
		p.P.VerifCacheSetExpires(key, time.Now().Add(-time.Hour))
		w.hookMu.Lock()
		w.onHook["renewed:"+key.Hex] = func() { p.P.VerifCacheDelete(key) }
		w.hookMu.Unlock()
	case "vanish-before-streaming":
		if !prep() {
			r.NotJudged("preparation-failed")
			return
		}
		w.hookMu.Lock()
		w.onHook["serve:"+key.Hex] = func() { p.P.VerifCacheDelete(key) }
		w.hookMu.Unlock()
	case "vanish-in-handover":
		w.hookMu.Lock()
		w.onHook["afterdo:"+key.Hex] = func() { p.P.VerifCacheDelete(key) }
		w.hookMu.Unlock()
		sequence = []rig.Req{{Target: target}, {Target: target}, {Target: target}} // sent concurrently below
	case "refreshed-between-scan-and-removal":
		// the cleanup scan collects the expired entry; before the removal loop reaches it a client request
		// revalidates it (304 renews the expiry); requests for the key must keep being answered afterwards
		if !prep() {
			r.NotJudged("preparation-failed")
			return
		}
		p.P.VerifCacheSetExpires(key, time.Now().Add(-time.Hour))
		var fired atomic.Bool
		w.hookMu.Lock()
		w.onHook["scan:"] = func() {
			if fired.CompareAndSwap(false, true) {
				rig.Do(p, mode, o.Addr, rig.Req{Target: target, Timeout: 10 * time.Second})
			}
		}
		w.hookMu.Unlock()
		p.P.VerifRunCleanupCycle()
		w.hookMu.Lock()
		delete(w.onHook, "scan:")
		w.hookMu.Unlock()
		sequence = append(sequence, rig.Req{Target: target, Timeout: 10 * time.Second})
	case "leader-hangs-up-cold", "leader-hangs-up-stale":
		// another client's hang-up: the first of two identical requests disconnects while the origin is
		// still preparing the answer; the second (coalesced onto the same fetch) must still get it
		if c.Fault == "leader-hangs-up-stale" {
			if !prep() {
				r.NotJudged("preparation-failed")
				return
			}
			p.P.VerifCacheSetExpires(key, time.Now().Add(-time.Hour))
		}
		w.mu.Lock()
		w.onReq[c.ID] = func(q *http.Request) { time.Sleep(150 * time.Millisecond) }
		w.mu.Unlock()
		go rig.Do(p, mode, o.Addr, rig.Req{Target: target, CloseAfterSend: 60 * time.Millisecond})
		time.Sleep(25 * time.Millisecond)
	case "overwrite-during-read":
		if !prep() {
			r.NotJudged("preparation-failed")
			return
		}
		// entry replaced (Range request re-stores it) between lookup and streaming
		w.hookMu.Lock()
		var fired atomic.Bool // the nested Range request reaches the same hook: it must pass straight through
		w.onHook["serve:"+key.Hex] = func() {
			if fired.CompareAndSwap(false, true) {
				rig.Do(p, mode, o.Addr, rig.Req{Target: target, Header: [][2]string{{"Range", "bytes=0-0"}}})
			}
		}
		w.hookMu.Unlock()
	case "cache-files-removed-behind-the-cache":
		// the entry is known to the index but its file is gone from the directory (tmp cleaner, operator)
		if !prep() {
			r.NotJudged("preparation-failed")
			return
		}
		ents, _ := os.ReadDir(dir)
		for _, e := range ents {
			os.Remove(filepath.Join(dir, e.Name()))
		}
		sequence = append(sequence, rig.Req{Target: target, Timeout: 10 * time.Second})
	case "dir-replaced-by-file":
		os.RemoveAll(dir)
		os.WriteFile(dir, []byte("not a directory"), 0o644)
		sequence = append(sequence, rig.Req{Target: target})
	case "dir-removed":
		os.RemoveAll(dir)
		sequence = append(sequence, rig.Req{Target: target})
	case "dir-readonly":
		os.Chmod(dir, 0o555)
		defer os.Chmod(dir, 0o755)
		sequence = append(sequence, rig.Req{Target: target})
	case "write-fails-after-n-bytes":
		rs, err := setFsizeLimit(uint64(c.N))
		if err != nil {
			r.NotJudged("setrlimit-failed")
			return
		}
		restore = rs
	}
	if c.Range {
		for i := range sequence {
			sequence[i].Header = append(sequence[i].Header, [2]string{"Range", "bytes=0-0"})
		}
	}
	cs := map[string]any{"id": c.ID, "case": c}
	r.Nontrivial(c.Fault, c.Backend, c.Shards, c.Size, c.N, c.Mode, c.Range)
	r.Count("fault_"+c.Fault, 1)
	var resps []*rig.Resp
	seq := o.LastSeq()
	if c.Fault == "vanish-in-handover" {
		resps = make([]*rig.Resp, len(sequence))
		var wg sync.WaitGroup
		for i, q := range sequence {
			wg.Add(1)
			go func() {
				defer wg.Done()
				resps[i] = rig.Do(p, mode, o.Addr, q)
			}()
		}
		wg.Wait()
	} else {
		for _, q := range sequence {
			resps = append(resps, rig.Do(p, mode, o.Addr, q))
		}
	}
	if restore != nil {
		restore()
	}
	w.mu.Lock()
	delete(w.onReq, c.ID)
	w.mu.Unlock()
	w.hookMu.Lock()
	delete(w.onHook, "serve:"+key.Hex)
	delete(w.onHook, "afterdo:"+key.Hex)
	delete(w.onHook, "renewed:"+key.Hex)
	w.hookMu.Unlock()
	var origin []rig.OriginReq
	bad := false
	for _, g := range o.Since(seq) {
		if g.Note == c.ID {
			origin = append(origin, g)
			if g.Status != 200 && g.Status != 304 {
				bad = true
			}
		}
	}
	if bad {
		r.NotJudged("origin-not-healthy")
		return
	}
	for i, resp := range resps {
		bv := rig.CheckFull(resp.Body, c.Size)
		wit := map[string]any{"request_index": i, "status": resp.Status, "err": fmt.Sprint(resp.Err), "body": bv.String(), "x_cache": resp.Get("X-Cache"), "origin_answers": origin, "proxy_panics": p.Panics()}
		sig := fmt.Sprintf("C09:%s:%s:%s", c.Fault, c.Backend, c09bodyClass(c.Size))
		if c.Range {
			sig += ":range-request"
		}
		if c.Range && resp.Err == nil {
			// a Range request: the exact first byte as 206, the complete 200, or (empty representation only) the
			// explicit 416 are all the origin's answer reaching the client; anything else is judged below
			okRange := (resp.Status == 206 && c.Size > 0 && len(resp.Body) == 1 && resp.Body[0] == rig.Body(9, wantVer, c.Size)[0] && strings.HasPrefix(resp.Get("Content-Range"), "bytes 0-0/")) ||
				(resp.Status == 416 && c.Size == 0)
			if okRange {
				continue
			}
		}
		switch {
		case resp.Err != nil:
			kind := "dropped"
			if strings.Contains(resp.Err.Error(), "timeout") || strings.Contains(resp.Err.Error(), "deadline") {
				kind = "hang"
			}
			r.Violation("C09", sig+":"+kind, fmt.Sprintf("fault %s: the origin answered successfully but the client got no well-formed response: %v", c.Fault, resp.Err), cs, wit)
			return
		case resp.Status != 200:
			r.Violation("C09", sig+fmt.Sprintf(":status-%d", resp.Status), fmt.Sprintf("fault %s: the origin answered successfully but the client received status %d %q", c.Fault, resp.Status, core.Trunc(string(resp.Body), 60)), cs, wit)
			return
		case bv.Kind != "complete" || (c.Size >= 8 && (bv.R != 9 || bv.V != wantVer)):
			r.Violation("C09", sig+":body-"+bv.Kind, fmt.Sprintf("fault %s: status 200 but the body is %s", c.Fault, bv), cs, wit)
			return
		}
	}
	r.Count("requests_answered_correctly_under_fault", int64(len(resps)))
}

func c09Run(b core.Batch, r *core.Recorder) {
	rig.QuietLogs()
	w := &c09world{sizes: map[string]int{}, ver: map[string]int{}, onReq: map[string]func(*http.Request){}, onHook: map[string]func(){}}
	hook := func(prefix string) verifhook.Callback {
		return func(arg any) {
			w.hookMu.Lock()
			f := w.onHook[prefix+arg.(string)]
			w.hookMu.Unlock()
			if f != nil {
				f()
			}
		}
	}
	verifhook.Set("janitor.scan.done", func(any) {
		w.hookMu.Lock()
		f := w.onHook["scan:"]
		w.hookMu.Unlock()
		if f != nil {
			f()
		}
	})
	verifhook.Set("proxy.serve.cached", hook("serve:"))
	verifhook.Set("fetch.dedup.afterDo", hook("afterdo:"))
	verifhook.Set("fetch.304.renewed", hook("renewed:"))
	o := rig.StartOrigin(w.handler)
	defer o.Close()
	mode := b.Str("transport", "plain")
	backends := []string{"memory", "file"}
	shards := []int{1, 2, 3, 1024}
	sizes := []int{0, 1, 1024, 40000}
	n := 0
	idTag := ""
	emit := func(c c09case) {
		n++
		c.ID = fmt.Sprintf("%s%s-%d", mode, idTag, n)
		c.Mode = mode
		if !r.Case(c.ID, c) {
			return
		}
		c09one(r, w, o, c)
		if n <= 2 {
			r.Sample(c)
		}
	}
	part := b.Str("part", "config")
	if part == "random" {
		idTag = fmt.Sprintf("-r%d", b.Int("sub", 0))
	}
	switch part {
	case "config":
		for _, be := range backends {
			for _, sh := range shards {
				for _, sz := range sizes {
					emit(c09case{Fault: "empty-or-plain", Backend: be, Shards: sh, Size: sz})
					if sh == 2 || sh == 1024 {
						emit(c09case{Fault: "empty-or-plain", Backend: be, Shards: sh, Size: sz, Range: true})
						emit(c09case{Fault: "cache-full-pinned", Backend: be, Shards: sh, Size: max(sz, 400), Range: true})
					}
					if sz > 1 {
						emit(c09case{Fault: "cache-full-tiny-limit", Backend: be, Shards: sh, Size: sz})
					}
					emit(c09case{Fault: "cache-full-pinned", Backend: be, Shards: sh, Size: max(sz, 400)})
					if be == "memory" {
						emit(c09case{Fault: "budget-zero", Backend: be, Shards: sh, Size: sz})
					}
				}
			}
		}
	case "vanish":
		for _, be := range backends {
			for _, sh := range []int{1, 3, 1024} {
				for _, sz := range []int{1, 1024, 40000} {
					for _, f := range []string{"vanish-during-revalidation", "vanish-after-304-renewal", "vanish-before-streaming", "vanish-in-handover", "overwrite-during-read", "leader-hangs-up-cold", "leader-hangs-up-stale", "refreshed-between-scan-and-removal"} {
						emit(c09case{Fault: f, Backend: be, Shards: sh, Size: sz})
					}
				}
			}
		}
	case "random":
		// seeded sample of the whole product with arbitrary sizes, shard counts and failure points
		rng := rand.New(rand.NewSource(b.Seed*7919 + int64(len(mode)) + int64(b.Int("sub", 0))*104729))
		faults := []string{"empty-or-plain", "cache-full-tiny-limit", "cache-full-pinned", "budget-zero", "vanish-during-revalidation", "vanish-after-304-renewal", "vanish-before-streaming", "vanish-in-handover",
			"overwrite-during-read", "leader-hangs-up-cold", "leader-hangs-up-stale", "refreshed-between-scan-and-removal", "dir-replaced-by-file", "dir-removed", "dir-readonly",
			"cache-files-removed-behind-the-cache", "write-fails-after-n-bytes", "write-fails-after-n-bytes", "write-fails-after-n-bytes"}
		for i := 0; i < b.Int("count", 60); i++ {
			c := c09case{Fault: faults[rng.Intn(len(faults))], Backend: backends[rng.Intn(2)], Shards: []int{1, 2, 3, 4, 5, 7, 8, 16, 61, 1024}[rng.Intn(10)]}
			switch rng.Intn(5) {
			case 0:
				c.Size = rng.Intn(3)
			case 1:
				c.Size = 8 + rng.Intn(600)
			case 2:
				c.Size = 4000 + rng.Intn(200) // around the 4 KiB buffer size
			case 3:
				c.Size = 32700 + rng.Intn(200) // around the 32 KiB copy buffer
			default:
				c.Size = rng.Intn(200000)
			}
			if rng.Intn(4) == 0 {
				switch c.Fault {
				case "empty-or-plain", "cache-full-tiny-limit", "cache-full-pinned", "budget-zero", "dir-replaced-by-file", "dir-removed", "dir-readonly", "write-fails-after-n-bytes":
					c.Range = true
				}
			}
			switch c.Fault {
			case "budget-zero":
				c.Backend = "memory"
			case "dir-replaced-by-file", "dir-removed", "dir-readonly", "cache-files-removed-behind-the-cache":
				c.Backend = "file"
			case "write-fails-after-n-bytes":
				c.Backend = "file"
				c.N = rng.Intn(c.Size + 1)
			case "cache-full-pinned":
				c.Size = max(c.Size, 400)
			case "cache-full-tiny-limit":
				c.Size = max(c.Size, 2)
			}
			emit(c)
		}
	case "dir":
		for _, sz := range []int{1, 1024, 40000} {
			for _, f := range []string{"dir-replaced-by-file", "dir-removed", "dir-readonly", "cache-files-removed-behind-the-cache"} {
				emit(c09case{Fault: f, Backend: "file", Shards: 16, Size: sz})
			}
		}
		// write failure after exactly n bytes of the cache file
		stride := b.Int("stride", 512)
		for _, sz := range []int{1024, 40000} {
			for nb := 0; nb <= sz; nb += stride {
				emit(c09case{Fault: "write-fails-after-n-bytes", Backend: "file", Shards: 16, Size: sz, N: nb})
				if sz > 4096 && nb > 4096 {
					nb += stride * 7
				}
			}
		}
	}
}

// c09deadline: a batch takes seconds (quick) to a few minutes (thorough) on a healthy tree; a child that hangs on a
// leaked lock is killed after this long and its goroutine dump is judged (blocked reservoir frames = a hang).
func c09deadline(tier string) int {
	if tier == "thorough" {
		return 1200
	}
	return 240
}

func c09Plan(tier string, seed int64) []core.Batch {
	stride := 256
	if tier == "thorough" {
		stride = 16
	}
	var bs []core.Batch
	for _, tr := range []string{"plain", "tunnel"} {
		for _, part := range []string{"config", "vanish", "dir"} {
			if tr == "tunnel" && part == "dir" && tier != "thorough" {
				continue
			}
			bs = append(bs, core.Batch{Name: part + "-" + tr, TimeoutS: c09deadline(tier), Args: map[string]any{"part": part, "transport": tr, "stride": stride}})
		}
		nb, cnt := 1, 80
		if tier == "thorough" {
			nb, cnt = 8, 1500
		}
		for i := 0; i < nb; i++ {
			bs = append(bs, core.Batch{Name: fmt.Sprintf("random-%s-%d", tr, i), TimeoutS: c09deadline(tier), Args: map[string]any{"part": "random", "transport": tr, "count": cnt, "sub": i}})
		}
	}
	return bs
}

func init() {
	core.Register(&core.Monitor{
		ID:    "C09",
		Level: "fault_enumeration",
		Rule: "fault classes x backend x shard count {1,2,3,1024} x body size {0,1,1 KiB,40 kB}: size limit below the body size; cache full with the other entries sharing the storing key's shard; memory_budget_percent=0; empty body; entry deleted while the origin holds the conditional request (304 for a vanished entry); entry deleted right after the 304 has renewed it, before it is read back (hook fetch.304.renewed); entry deleted between lookup and streaming (hook); entry deleted in the coalesced hand-over window (hook, 3 concurrent clients); entry overwritten between lookup and streaming; the entry is revalidated between the cleanup scan and its removal loop (hook); the first of two coalesced clients hangs up while the origin prepares the answer (cold and stale key); " +
			"file backend: cache directory replaced by a file / removed / read-only, and RLIMIT_FSIZE = n for n swept over the body length (the cache file write fails after exactly n bytes). The origin is healthy in every case; each client response must be 200 with the complete body (for the variants whose client sends Range: bytes=0-0: the exact 206, the complete 200, or 416 for an empty representation). A seeded random sample of the whole product (arbitrary body sizes 0..200 kB incl. buffer-size neighbourhoods, shard counts 1..1024, write-failure byte positions) is added to the enumerated cases. Non-trivial = distinct (fault, backend, shards, size, n, transport).",
		Assumptions: []string{"RLIMIT_FSIZE is process-wide: it is lowered only for the duration of the faulted request; Go ignores SIGXFSZ so the write returns EFBIG", "cases where the origin itself answered with an error are not judged"},
		Plan:        c09Plan,
		Run:         c09Run,
		Parallel:    5,
		Floors:      map[string]map[string]int64{"quick": {"requests_answered_correctly_under_fault": 150}, "thorough": {"requests_answered_correctly_under_fault": 20000}},
	})
}
