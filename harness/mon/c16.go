package mon

// C16 — no input makes the proxy panic or leave a request unanswered.
//
// (a) entry points under recover with bounded-exhaustive grammars and seeded mutations:
//     header directives (+ SliceSize / ShouldCache / GetExpiresOrDefault), cache keys,
//     byte sizes, durations, PHC strings (+ verify for cheap parameters), certificate
//     issuance, configuration files and update documents;
// (b) wire: generated request bytes (plain and inside a tunnel, CONNECT targets) against the
//     real proxy, and generated response header bytes from a raw origin. The server's error
//     log is scanned for "panic serving"; every well-formed request must be answered with a
//     well-formed response.

import (
	"bufio"
	"bytes"
	"context"
	"encoding/json"
	"fmt"
	"net"
	"net/http"
	"os"
	"path/filepath"
	"runtime/debug"
	"strings"
	"time"

	"reservoir/cache"
	"reservoir/config"
	"reservoir/proxy/headers"
	"reservoir/utils/bytesize"
	"reservoir/utils/duration"
	"reservoir/utils/phc"
	"verifharness/core"
	"verifharness/rig"
)

type c16rng interface {
	IntN(int) int
}

func c16mutate(rng c16rng, s string) string {
	b := []byte(s)
	if len(b) == 0 {
		return string([]byte{byte(rng.IntN(256))})
	}
	switch rng.IntN(6) {
	case 0: // flip a byte
		b[rng.IntN(len(b))] = byte(rng.IntN(256))
	case 1: // delete a run
		i := rng.IntN(len(b))
		j := min(len(b), i+1+rng.IntN(4))
		b = append(b[:i], b[j:]...)
	case 2: // duplicate a run
		i := rng.IntN(len(b))
		j := min(len(b), i+1+rng.IntN(6))
		b = append(b[:j], append(append([]byte{}, b[i:j]...), b[j:]...)...)
	case 3: // insert a special
		sp := []string{"=", ",", "-", " ", "\t", "\"", "$", "%", "\x00", "9223372036854775808", "-1", "e9", ";", ":", "[", "]"}
		i := rng.IntN(len(b) + 1)
		b = append(b[:i], append([]byte(sp[rng.IntN(len(sp))]), b[i:]...)...)
	case 4: // truncate
		b = b[:rng.IntN(len(b))]
	case 5: // repeat whole
		b = bytes.Repeat(b, 1+rng.IntN(3))
	}
	return string(b)
}

// c16guard runs f under recover and records a panic as a violation.
func c16guard(r *core.Recorder, entry, class, input string, f func()) {
	r.Eval(1)
	defer func() {
		if e := recover(); e != nil {
			stack := string(debug.Stack())
			frame := core.FirstReservoirFrame(stack)
			r.Violation("C16", fmt.Sprintf("C16:panic:%s:%s:%s", entry, frame, abortKindOf(fmt.Sprint(e))), fmt.Sprintf("%s panicked on %s input %q: %v", entry, class, core.Trunc(input, 200), e),
				map[string]any{"id": entry + ":" + core.Trunc(input, 120), "entry": entry, "class": class, "input": input}, core.Trunc(stack, 3000))
		}
	}()
	f()
}

func c16RunFunc(b core.Batch, r *core.Recorder) {
	rig.QuietLogs()
	rng := b.Rand("c16-func")
	n := b.Int("n", 20000)
	// ---- header directives
	seedsRange := []string{"bytes=0-1", "bytes=-5", "bytes=5-", "bytes=", "bytes=5", "bytes=-", "bytes=0-0,1-1", "bytes= 1 - 2 ", "items=0-1", "bytes=18446744073709551616-1", "", "="}
	seedsCC := []string{"max-age=60", "no-store", "no-cache, max-age=0", "private", "max-age=\"5\"", "max-age=", "max-age", "=", ",", "max-age=99999999999999999999", "MAX-AGE=1, NO-STORE", "public, max-age=1,,", "s-maxage=1"}
	seedsDate := []string{"Wed, 21 Oct 2015 07:28:00 GMT", "Wednesday, 21-Oct-15 07:28:00 GMT", "Wed Oct 21 07:28:00 2015", "0", "-1", "", "\"etag\"", "W/\"etag\"", "Wed, 99 Oct 2015 07:28:00 GMT"}
	hdrNames := []string{"Range", "Cache-Control", "Expires", "If-Range", "If-Modified-Since", "If-Unmodified-Since", "If-None-Match", "If-Match"}
	for i := 0; i < n; i++ {
		h := http.Header{}
		var desc strings.Builder
		for k := 0; k < 1+rng.IntN(3); k++ {
			name := hdrNames[rng.IntN(len(hdrNames))]
			var v string
			switch name {
			case "Range":
				v = seedsRange[rng.IntN(len(seedsRange))]
			case "Cache-Control":
				v = seedsCC[rng.IntN(len(seedsCC))]
			default:
				v = seedsDate[rng.IntN(len(seedsDate))]
			}
			for m := rng.IntN(3); m > 0; m-- {
				v = c16mutate(rng, v)
			}
			h[name] = append(h[name], v) // (a key with an empty value list cannot arise from bytes on the wire)
			fmt.Fprintf(&desc, "%s: %q; ", name, v)
		}
		in := desc.String()
		c16guard(r, "headers.ParseHeaderDirective", "header-set", in, func() {
			hd := headers.ParseHeaderDirective(h)
			hd.ShouldCache(i%2 == 0)
			hd.GetExpiresOrDefault(i%3 == 0, time.Minute)
			if hd.Range.IsPresent() {
				for _, size := range []int64{0, 1, 17, 1 << 40} {
					hd.Range.Value().SliceSize(size)
				}
				_ = hd.Range.Value().String()
			}
			hd.StripRegularConditionals(h)
		})
		r.Nontrivial("hdr", in)
	}
	// ---- cache key from wire requests
	targets := []string{"http://h/p", "http://h", "http://h:80/a/../b?x=1", "http://H/%2F%2e", "http://h/a|b?c|d", "http://[::1]:8/p", "http://h/" + strings.Repeat("a/", 200), "http://h/?%zz", "http://h/%zz", "*", "/rel", "//h/p", "http://h/p#frag", "http://h/\x7f"}
	for i := 0; i < n/4; i++ {
		t := targets[rng.IntN(len(targets))]
		for m := rng.IntN(3); m > 0; m-- {
			t = c16mutate(rng, t)
		}
		m := []string{"GET", "HEAD", "POST", "G|T", "OPTIONS"}[rng.IntN(5)]
		raw := fmt.Sprintf("%s %s HTTP/1.1\r\nHost: %s\r\n\r\n", m, t, []string{"h", "H:80", "", "[::1]", "a|b"}[rng.IntN(5)])
		req, err := http.ReadRequest(bufio.NewReader(strings.NewReader(raw)))
		if err != nil {
			continue
		}
		c16guard(r, "cache.MakeFromRequest", "request-target", raw, func() { k := cache.MakeFromRequest(req); _ = k.String(); k.Bytes() })
		r.Nontrivial("key", raw)
	}
	// ---- byte sizes and durations (Parse, String, JSON)
	for i := 0; i < n/2; i++ {
		s := []string{"10G", "500M", "1B", "0K", "9223372036854775807B", "8388608T", "K", "10", "", "1.5G", "-1K", "10KB"}[rng.IntN(12)]
		if i%3 == 0 {
			// powers of 1024 (and neighbours) times each unit: exact multiples of every unit up to and beyond the largest
			pw := int64(1) << uint(10*rng.IntN(7))
			s = fmt.Sprintf("%d%c", pw*[]int64{1, 2, 3, 1023, 1024, 1025}[rng.IntN(6)]+int64(rng.IntN(3)-1), "BKMGT"[rng.IntN(5)])
		}
		for m := rng.IntN(3); m > 0; m-- {
			s = c16mutate(rng, s)
		}
		c16guard(r, "bytesize", "size-string", s, func() {
			if v, err := bytesize.Parse(s); err == nil {
				_ = v.String()
				v.ToString('Q')
				_ = v.FindLargestFittingUnit()
				json.Marshal(v)
			}
			var v bytesize.ByteSize
			js, _ := json.Marshal(s)
			json.Unmarshal(js, &v)
			json.Unmarshal([]byte(s), &v)
			json.Marshal(bytesize.ByteSize(int64(rng.IntN(1<<30)) - 5))
		})
		d := []string{"90m", "1h30m", "0s", "-5s", "1ns", "2562047h47m16.854775807s", "2562047h47m16.854775808s", "1e3s", "", "5", "1d"}[rng.IntN(11)]
		for m := rng.IntN(2); m > 0; m-- {
			d = c16mutate(rng, d)
		}
		c16guard(r, "duration", "duration-string", d, func() {
			var v duration.Duration
			js, _ := json.Marshal(d)
			if json.Unmarshal(js, &v) == nil {
				json.Marshal(v)
				_ = v.Cast()
			}
			json.Unmarshal([]byte(d), &v)
		})
		r.Nontrivial("size", s, d)
	}
	// ---- PHC strings
	good := c20hash("pw", c20salt16)
	parts := strings.Split(good, "$")
	phcSeeds := []string{good, "", "$", "$$$$$", "$argon2id$v=19$m=64,t=1,p=1$" + parts[4] + "$" + parts[5], strings.Replace(good, parts[4], strings.Repeat("QUFB", 20), 1), strings.Replace(good, "m=64", "m=0", 1), strings.Replace(good, "p=1", "p=255", 1),
		strings.Replace(good, "l=32", "l=0", 1), strings.Replace(good, "t=1", "t=2", 1), strings.Replace(good, parts[5], "", 1), strings.Replace(good, "v=19", "v=", 1), "$argon2id$v=19$m=8,t=1,p=4,l=4$" + parts[4] + "$AAAAAA"}
	for i := 0; i < n/2; i++ {
		s := phcSeeds[rng.IntN(len(phcSeeds))]
		for m := rng.IntN(3); m > 0; m-- {
			s = c16mutate(rng, s)
		}
		c16guard(r, "phc.ParsePHC", "phc-string", s, func() {
			p, err := phc.ParsePHC(s)
			if err != nil {
				return
			}
			_ = p.String()
			p.Value()
			json.Marshal(p)
			// verification only for parameter sets that cannot exhaust the harness's memory/time
			var m, t uint32
			var par uint8
			if _, err := fmt.Sscanf(strings.Split(p.String(), "$")[3], "m=%d,t=%d,p=%d", &m, &t, &par); err == nil && m <= 1024 && t <= 2 {
				p.VerifyArgon2id("pw")
				r.Count("phc_verified", 1)
			}
			var q phc.PHC
			q.Scan(s)
			q.Scan([]byte(s))
			q.Scan(42)
			js, _ := json.Marshal(s)
			json.Unmarshal(js, &q)
		})
		r.Nontrivial("phc", s)
	}
	// ---- certificate issuance
	ca := rig.SharedCA()
	hosts := c11hosts(b, 120)
	for i := 0; i < min(n/10, 1500); i++ {
		hstr := hosts[rng.IntN(len(hosts))]
		if i%2 == 0 {
			hstr = c16mutate(rng, hstr)
		}
		c16guard(r, "certs.GetCertForHost", "connect-target", hstr, func() { ca.CA.GetCertForHost(hstr) })
		r.Nontrivial("cert", hstr)
	}
	// ---- configuration files and update documents
	os.MkdirAll("var", 0o755)
	def, _ := json.MarshalIndent(config.NewDefault(), "", " ")
	// a live configuration with a running cache + janitor: update documents are also applied to it, so that
	// a value that only blows up inside a listening component (in another goroutine: a process abort, which
	// the driver reports) is reached too
	liveCtx, liveCancel := context.WithCancel(context.Background())
	defer liveCancel()
	// (built with the default values, so that the rig sets no override: an override would mask API updates;
	// renewed every few documents, so that one accepted-but-poisonous document cannot shadow the following ones)
	var liveCfg *config.Config
	var liveCache rig.VCache
	renewLive := func() {
		if liveCache != nil {
			liveCache.Destroy()
		}
		liveCfg = config.NewDefault()
		liveCache, _ = rig.NewCache(liveCtx, rig.CacheOpts{Backend: "memory", Shards: 4, Cfg: liveCfg, Max: liveCfg.Cache.MaxCacheSize.Read().Bytes(), Interval: liveCfg.Cache.CleanupInterval.Read().Cast()})
	}
	renewLive()
	defer func() { liveCache.Destroy() }()
	jsonVals := []string{"null", "0", "-1", "1e400", "true", "\"\"", "\"x\"", "[]", "{}", "\"0B\"", "\"0s\"", "\"-1h\"", "99999999999999999999", "\"99999999999999999999T\"", "{\"a\":{\"b\":null}}", "{\"\":1}", "{\"\":{\"\":null}}", "{\"value\":1,\"onChange\":{},\"requiresRestart\":true}", "{\"-\":1}"}
	for i := 0; i < min(n/10, 2000); i++ {
		doc := string(def)
		switch rng.IntN(3) {
		case 0:
			for m := 1 + rng.IntN(3); m > 0; m-- {
				doc = c16mutate(rng, doc)
			}
		default:
			// replace the value of a random key with a random JSON value
			lines := strings.Split(doc, "\n")
			for tries := 0; tries < 10; tries++ {
				k := rng.IntN(len(lines))
				if i := strings.Index(lines[k], "\": "); i > 0 && !strings.HasSuffix(lines[k], "{") {
					lines[k] = lines[k][:i+3] + jsonVals[rng.IntN(len(jsonVals))] + map[bool]string{true: ",", false: ""}[strings.HasSuffix(lines[k], ",")]
					break
				}
			}
			doc = strings.Join(lines, "\n")
		}
		os.WriteFile("var/config.json", []byte(doc), 0o644)
		c16guard(r, "config.LoadOrDefault", "config-file", doc, func() {
			if cfg, err := config.LoadOrDefault("var/config.json"); err == nil && cfg != nil {
				cfgWalk(cfg)
				json.Marshal(cfg)
			}
		})
		var upd map[string]any
		if json.Unmarshal([]byte(doc), &upd) == nil {
			cfg := config.NewDefault()
			c16guard(r, "config.UpdatePartialFromConfig", "update-document", doc, func() { config.UpdatePartialFromConfig(cfg, upd) })
			if i%5 == 0 {
				renewLive()
			}
			r.Case(fmt.Sprintf("live-update-%d", i), core.Trunc(doc, 1500)) // logged first: a crash in a listener goroutine is attributed to it
			c16guard(r, "config.UpdatePartialFromConfig(live)", "update-document", doc, func() { config.UpdatePartialFromConfig(liveCfg, upd) })
			time.Sleep(400 * time.Microsecond) // let the asynchronous listeners and the janitor act on this document before the next one
		}
		r.Nontrivial("cfg", doc)
	}
	c16guard(r, "config.UpdatePartialFromConfig", "nil-document", "nil", func() { config.UpdatePartialFromConfig(config.NewDefault(), nil) })
	r.Sample(map[string]any{"part": "entry-points", "n": n, "entries": []string{"headers.ParseHeaderDirective(+ShouldCache,GetExpiresOrDefault,SliceSize,StripRegularConditionals)", "cache.MakeFromRequest", "bytesize Parse/String/JSON", "duration JSON", "phc ParsePHC/Scan/JSON/VerifyArgon2id(cheap)", "certs.GetCertForHost", "config.LoadOrDefault", "config.UpdatePartialFromConfig"}})
}

// ---- wire -------------------------------------------------------------------------------------

func c16RunWire(b core.Batch, r *core.Recorder) {
	rig.QuietLogs()
	rng := b.Rand("c16-wire")
	// raw origin: the response head is generated from the request's X-Verif-Resp index
	respHeads := []string{
		"HTTP/1.1 200 OK\r\nContent-Length: 5\r\nCache-Control: max-age=60\r\n\r\nhello",
		"HTTP/1.1 200 OK\r\nContent-Length: 5\r\nContent-Length: 6\r\n\r\nhello!",
		"HTTP/1.1 200 OK\r\nContent-Length: -1\r\n\r\nhello",
		"HTTP/1.1 200 OK\r\nContent-Length: 99999999999999999999\r\n\r\nhello",
		"HTTP/1.1 200 OK\r\nTransfer-Encoding: chunked\r\n\r\nzz\r\nhello\r\n0\r\n\r\n",
		"HTTP/1.1 200 OK\r\nCache-Control: max-age=99999999999999999999999\r\nContent-Length: 2\r\n\r\nok",
		"HTTP/1.1 200 OK\r\nExpires: -1\r\nExpires: 0\r\nCache-Control:\r\nContent-Length: 2\r\n\r\nok",
		"HTTP/1.1 200 OK\r\nETag: \r\nLast-Modified: yesterday\r\nCache-Control: max-age=60\r\nContent-Length: 2\r\n\r\nok",
		"HTTP/1.1 200 OK\r\nCache-Control: max-age=60\r\nContent-Length: 0\r\n\r\n",
		"HTTP/1.1 304 Not Modified\r\n\r\n",
		"HTTP/1.1 304 Not Modified\r\nETag: \"x\"\r\nContent-Length: 5\r\n\r\n",
		"HTTP/1.1 416 Range Not Satisfiable\r\nContent-Range: bytes */x\r\nContent-Length: 0\r\n\r\n",
		"HTTP/1.1 206 Partial Content\r\nContent-Range: bytes 5-1/3\r\nContent-Length: 2\r\n\r\nok",
		"HTTP/1.1 000 Zero\r\nContent-Length: 0\r\n\r\n",
		"HTTP/1.1 999 Big\r\nContent-Length: 0\r\n\r\n",
		"HTTP/1.1 100 Continue\r\n\r\nHTTP/1.1 200 OK\r\nContent-Length: 2\r\n\r\nok",
		"HTTP/1.1 200 OK\r\nBad Header Name: x\r\nContent-Length: 2\r\n\r\nok",
		"HTTP/1.1 200 OK\r\nX-Bin: \x00\x01\xff\r\nContent-Length: 2\r\n\r\nok",
		"HTTP/1.1 200 OK\r\n" + strings.Repeat("X-Many: v\r\n", 2000) + "Content-Length: 2\r\n\r\nok",
		"HTTP/1.1 200 OK\r\nX-Long: " + strings.Repeat("v", 70000) + "\r\nContent-Length: 2\r\n\r\nok",
		"HTTP/1.1 200 OK\r\nConnection: Content-Length, Cache-Control\r\nCache-Control: max-age=60\r\nContent-Length: 2\r\n\r\nok",
		"HTTP/1.1 200 OK\r\nContent-Length: 10\r\n\r\nshort",
		"HTTP/1.1 200\r\n\r\n",
		"garbage\r\n\r\n",
		"",
		"HTTP/1.1 200 OK\r\nSet-Cookie: a\r\nSet-Cookie:\r\nVary: *\r\nAge: -5\r\nDate: never\r\nCache-Control: max-age=60\r\nContent-Length: 2\r\n\r\nok",
		"HTTP/1.1 301 Moved\r\nLocation: \r\nContent-Length: 0\r\n\r\n",
		"HTTP/1.1 200 OK\r\nContent-Encoding: gzip\r\nContent-Length: 4\r\n\r\nnotz",
	}
	// behaviours that depend on the request (index >= len(respHeads)): what the proxy's own second request
	// (retry without Range, revalidation) receives differs from what the first received
	ok200 := "HTTP/1.1 200 OK\r\nContent-Length: 5\r\nCache-Control: max-age=60\r\nETag: \"e\"\r\n\r\nhello"
	dynamic := []func(q *http.Request) string{
		func(q *http.Request) string { // refuses ranges, cacheable answer to the retry
			if q.Header.Get("Range") != "" {
				return "HTTP/1.1 416 Range Not Satisfiable\r\nContent-Range: bytes */5\r\nContent-Length: 0\r\n\r\n"
			}
			return ok200
		},
		func(q *http.Request) string { // refuses ranges, uncacheable answer to the retry
			if q.Header.Get("Range") != "" {
				return "HTTP/1.1 416 Range Not Satisfiable\r\nContent-Length: 0\r\n\r\n"
			}
			return "HTTP/1.1 200 OK\r\nContent-Length: 5\r\nCache-Control: no-store\r\n\r\nhello"
		},
		func(q *http.Request) string { // honours ranges with a fixed slice
			if q.Header.Get("Range") != "" {
				return "HTTP/1.1 206 Partial Content\r\nContent-Range: bytes 0-1/5\r\nContent-Length: 2\r\nCache-Control: max-age=60\r\n\r\nhe"
			}
			return ok200
		},
		func(q *http.Request) string { // validates
			if q.Header.Get("If-None-Match") != "" || q.Header.Get("If-Modified-Since") != "" {
				return "HTTP/1.1 304 Not Modified\r\nETag: \"e\"\r\n\r\n"
			}
			return ok200
		},
	}
	nResp := len(respHeads) + len(dynamic)
	headOf := func(idx int) string {
		if idx < len(respHeads) {
			return respHeads[idx]
		}
		return fmt.Sprintf("(request-dependent behaviour %d: 416 for Range then 200 / 206 for Range / 304 for conditionals)", idx-len(respHeads))
	}
	o := rig.StartRawOrigin(func(q *http.Request, rec *rig.OriginReq) ([]byte, bool) {
		idx := 0
		fmt.Sscanf(q.Header.Get("X-Verif-Resp"), "%d", &idx)
		if idx < 0 || idx >= nResp {
			idx = 0
		}
		rec.SetNote(fmt.Sprint(idx))
		if idx >= len(respHeads) {
			return []byte(dynamic[idx-len(respHeads)](q)), true
		}
		return []byte(respHeads[idx]), true
	})
	defer o.Close()
	for _, backend := range []string{"memory", "file"} {
		for _, retry := range []bool{false, true} {
			p := rig.StartProxy(rig.ProxyOpts{Backend: backend, RetryInvalid: retry, Retry416: retry})
			n := b.Int("n", 300)
		cases:
			for i := 0; i < n; i++ {
				id := fmt.Sprintf("%s-%v-%d", backend, retry, i)
				// ---- compose request bytes
				method := []string{"GET", "GET", "GET", "HEAD", "POST", "OPTIONS", "PUT", "get", "G\x00T", "TRACE", "CONNECT"}[rng.IntN(11)]
				path := []string{"/w", "/w?x=1", "/", "", "/%zz", "/a b", "/" + strings.Repeat("p", 9000), "/w#f", "/../../etc", "/w?" + strings.Repeat("q=1&", 500)}[rng.IntN(10)]
				host := o.Addr
				target := "http://" + host + fmt.Sprintf("/c%d", i) + path
				switch rng.IntN(12) {
				case 0:
					target = fmt.Sprintf("/c%d", i) + path // origin-form to a proxy
				case 1:
					target = "http://" + host // no path
				case 2:
					target = "HTTP://" + strings.ToUpper(host) + "/c" + fmt.Sprint(i)
				case 3:
					target = "http://user:pw@" + host + "/c" + fmt.Sprint(i)
				case 4:
					target = "*"
				case 5:
					target = "http://" + host + ":/c" // empty port after host:port
				}
				var hdrs []string
				respIdx := rng.IntN(nResp)
				if rng.IntN(4) == 0 {
					respIdx = len(respHeads) + rng.IntN(len(dynamic))
				}
				// the same bytes are sent again on a new connection (second time against whatever was stored)
				reps := 1 + rng.IntN(2)
				hdrs = append(hdrs, fmt.Sprintf("X-Verif-Resp: %d", respIdx))
				add := func(name string, seeds []string) {
					v := seeds[rng.IntN(len(seeds))]
					for m := rng.IntN(3); m > 0; m-- {
						v = c16mutate(rng, v)
					}
					v = strings.NewReplacer("\r", "", "\n", "").Replace(v)
					hdrs = append(hdrs, name+": "+v)
				}
				if rng.IntN(2) == 0 {
					add("Range", []string{"bytes=0-1", "bytes=", "bytes=5", "bytes=-", "bytes=-0", "bytes=1-0", "bytes=0-0,2-3", "bytes=18446744073709551615-", "bytes= - ", "bytes"})
				}
				if rng.IntN(3) == 0 {
					add("If-Range", []string{"\"x\"", "W/\"x\"", "Wed, 21 Oct 2015 07:28:00 GMT", "", "0"})
				}
				if rng.IntN(3) == 0 {
					add("Cache-Control", []string{"no-cache", "max-age=0", "max-age=x", ",,,", "only-if-cached"})
				}
				if rng.IntN(3) == 0 {
					add([]string{"If-None-Match", "If-Modified-Since", "If-Match", "If-Unmodified-Since"}[rng.IntN(4)], []string{"*", "\"a\", \"b\"", "Wed, 21 Oct 2015 07:28:00 GMT", "garbage"})
				}
				if rng.IntN(6) == 0 {
					hdrs = append(hdrs, "X-Big: "+strings.Repeat("b", 1000+rng.IntN(60000)))
				}
				if rng.IntN(6) == 0 {
					hdrs = append(hdrs, "Connection: close, X-Verif-Resp")
				}
				hostHdr := []string{"Host: " + host, "Host: " + host, "Host: " + host, "Host: ", "Host: other.invalid", "", "Host: " + host + "\r\nHost: dup",
					"Host: example.com:abc", "Host: example.com:80:80", "Host: %zz", "Host: [::1", "Host: h:99999", "Host: [::1]:x"}[rng.IntN(13)]
				var raw bytes.Buffer
				fmt.Fprintf(&raw, "%s %s HTTP/1.%d\r\n", method, target, rng.IntN(2))
				if hostHdr != "" {
					raw.WriteString(hostHdr + "\r\n")
				}
				for _, h := range hdrs {
					raw.WriteString(h + "\r\n")
				}
				body := ""
				if method == "POST" || method == "PUT" {
					body = "x=1"
					fmt.Fprintf(&raw, "Content-Length: %d\r\n", len(body))
				}
				raw.WriteString("\r\n" + body)
				reqBytes := raw.Bytes()
				mode := "plain"
				if rng.IntN(4) == 0 {
					mode = "tunnel"
				}
				if method == "CONNECT" {
					mode = "connect-target"
				}
				if !r.Case(id, map[string]any{"mode": mode, "request": core.Trunc(string(reqBytes), 600), "origin_response": respIdx}) {
					continue
				}
				for rep := 0; rep < reps; rep++ {
					r.Eval(1)
					npan := len(p.Panics())
					wellFormedReq := false
					// exactly one Host field line: HTTP/1.1 requires it, and Go's server answers 400 and closes (which
					// can reset a client still sending a large request) when it is missing or duplicated
					oneHost := hostHdr != "" && !strings.Contains(hostHdr, "\r\n")
					if pr, err := http.ReadRequest(bufio.NewReader(bytes.NewReader(reqBytes))); err == nil && pr.Host != "" && oneHost {
						wellFormedReq = true
					}
					var resp *rig.Resp
					switch mode {
					case "plain":
						resp = rig.PlainDo(p.Addr, rig.Req{Raw: reqBytes, Timeout: 10 * time.Second})
					case "tunnel":
						t, err := rig.OpenTunnel(p.Addr, o.Addr, strings.Split(o.Addr, ":")[0], p.CA.Pool)
						if err != nil {
							resp = &rig.Resp{Err: err}
							wellFormedReq = false
						} else {
							// origin-form inside the tunnel
							inner := bytes.Replace(reqBytes, []byte("http://"+host), nil, 1)
							reqBytes = inner
							wellFormedReq = false
							if pr, err := http.ReadRequest(bufio.NewReader(bytes.NewReader(inner))); err == nil && pr.Host != "" && oneHost && strings.HasPrefix(pr.RequestURI, "/") {
								wellFormedReq = true
							}
							resp = t.Do(rig.Req{Raw: inner, Timeout: 10 * time.Second})
							t.Close()
						}
					case "connect-target":
						tgt := []string{o.Addr, "", "nohost", ":443", "[::1", "a:b:c", strings.Repeat("h", 3000) + ":1", "127.0.0.1:99999", "127.0.0.1:0x50", "h:443 extra", "example.com", "localhost", "10.0.0.1", "[::1]", "host.example:"}[rng.IntN(15)]
						reqBytes = []byte(fmt.Sprintf("CONNECT %s HTTP/1.1\r\nHost: %s\r\n\r\n", tgt, tgt))
						// an odd CONNECT target need not be tunnelled, but a CONNECT that is a well-formed HTTP request must be
						// answered with some status, not with a closed connection
						wellFormedReq = false
						if pr, err := http.ReadRequest(bufio.NewReader(bytes.NewReader(reqBytes))); err == nil && pr.Method == "CONNECT" {
							wellFormedReq = true
						}
						resp = c16connect(p.Addr, reqBytes)
					}
					r.Nontrivial(mode, string(reqBytes), respIdx)
					r.Count("wire_cases", 1)
					cs := map[string]any{"id": id, "mode": mode, "request": core.Trunc(string(reqBytes), 800), "origin_response_head": core.Trunc(headOf(respIdx), 200), "backend": backend}
					if pans := p.Panics(); len(pans) > npan {
						kind, frame := core.ClassifyAbort(pans[len(pans)-1])
						if frame == "" {
							frame = "net/http"
						}
						r.Violation("C16", fmt.Sprintf("C16:wire:panic:%s:%s", frame, abortKindOf(kind)+c16kind(kind)), fmt.Sprintf("%s request made the handler panic: %s", mode, core.Trunc(kind, 160)), cs, core.Trunc(pans[len(pans)-1], 3000))
						continue cases
					}
					brokenTransfer := map[int]bool{3: true, 4: true, 21: true, 23: true, 24: true, 27: true}[respIdx] // (27: announces gzip, body is not gzip) // the origin's own transfer is incomplete or unparseable
					if wellFormedReq && resp.Err != nil {
						cls := "dropped"
						if strings.Contains(resp.Err.Error(), "timeout") {
							cls = "hang"
						}
						if brokenTransfer && cls != "hang" {
							r.NotJudged("origin-transfer-broken-client-connection-ended")
							continue cases
						}
						r.Violation("C16", fmt.Sprintf("C16:wire:unanswered:%s:origin-response-%d", cls, respIdx), fmt.Sprintf("a well-formed %s request got no well-formed response (%v); the origin's answer was %q", mode, resp.Err, core.Trunc(headOf(respIdx), 80)), cs, map[string]any{"request_tail": string(reqBytes[max(0, len(reqBytes)-300):]), "request_len": len(reqBytes), "repetition": rep, "status": resp.Status, "header": resp.Header, "body_read": core.Trunc(string(resp.Body), 200)})
						continue cases
					}
					if resp.Err == nil {
						r.Count("wire_answered", 1)
						if resp.Status < 100 || resp.Status > 999 {
							r.Violation("C16", fmt.Sprintf("C16:wire:ill-formed-status:%d", resp.Status), fmt.Sprintf("%s request was answered with status %d", mode, resp.Status), cs, nil)
						}
					}
				}
			}
			p.Close()
		}
	}
	r.Sample(map[string]any{"part": "wire", "origin_response_heads": len(respHeads), "example_request": "GET http://origin/c7/%zz HTTP/1.1 + mutated Range / If-Range / Cache-Control / conditional headers, plain or inside a tunnel; CONNECT with odd targets"})
}

func c16kind(kind string) string {
	if strings.Contains(kind, "invalid WriteHeader code") {
		return ":invalid-status-code"
	}
	return ""
}

func c16connect(addr string, raw []byte) *rig.Resp {
	conn, err := net.DialTimeout("tcp", addr, 5*time.Second)
	if err != nil {
		return &rig.Resp{Err: err}
	}
	defer conn.Close()
	conn.SetDeadline(time.Now().Add(5 * time.Second))
	conn.Write(raw)
	resp, err := http.ReadResponse(bufio.NewReader(conn), &http.Request{Method: "CONNECT"})
	if err != nil {
		return &rig.Resp{Err: err}
	}
	return &rig.Resp{Status: resp.StatusCode}
}

// ---- coverage-guided fuzzing (thorough tier) ------------------------------------------------------

const c16fuzzSrc = `package fuzzscratch

import (
	"bufio"
	"encoding/json"
	"net/http"
	"strings"
	"testing"
	"time"

	"reservoir/cache"
	"reservoir/proxy/headers"
	"reservoir/utils/bytesize"
	"reservoir/utils/duration"
	"reservoir/utils/phc"
)

func FuzzHeaders(f *testing.F) {
	f.Add("bytes=0-1", "max-age=60", "Wed, 21 Oct 2015 07:28:00 GMT", "\"x\"")
	f.Add("bytes=-5", "no-store, MAX-AGE=\"0\"", "0", "W/\"x\"")
	f.Fuzz(func(t *testing.T, rng, cc, date, tag string) {
		h := http.Header{"Range": {rng}, "Cache-Control": {cc, cc}, "Expires": {date}, "If-Range": {tag}, "If-Modified-Since": {date}, "If-None-Match": {tag}}
		hd := headers.ParseHeaderDirective(h)
		hd.ShouldCache(false)
		hd.ShouldCache(true)
		hd.GetExpiresOrDefault(false, time.Minute)
		if hd.Range.IsPresent() {
			for _, size := range []int64{0, 1, 1000, 1 << 40} {
				hd.Range.Value().SliceSize(size)
			}
			_ = hd.Range.Value().String()
		}
		hd.StripRegularConditionals(h)
	})
}

func FuzzCacheKey(f *testing.F) {
	f.Add("GET", "http://h/a/../b?x=1", "h")
	f.Add("HEAD", "http://H/%2F|?|", "H:80")
	f.Fuzz(func(t *testing.T, method, target, host string) {
		if strings.ContainsAny(method+target+host, "\r\n") {
			return
		}
		req, err := http.ReadRequest(bufio.NewReader(strings.NewReader(method + " " + target + " HTTP/1.1\r\nHost: " + host + "\r\n\r\n")))
		if err != nil {
			return
		}
		k := cache.MakeFromRequest(req)
		_ = k.String()
		k.Bytes()
	})
}

func FuzzByteSize(f *testing.F) {
	f.Add("10G")
	f.Add("99999999999999999999T")
	f.Fuzz(func(t *testing.T, s string) {
		if v, err := bytesize.Parse(s); err == nil {
			back, err := bytesize.Parse(v.String())
			if err != nil || back != v {
				t.Fatalf("Parse(String(%d)) = %d, %v", int64(v), int64(back), err)
			}
		}
		var v bytesize.ByteSize
		js, _ := json.Marshal(s)
		json.Unmarshal(js, &v)
		var d duration.Duration
		json.Unmarshal(js, &d)
	})
}

func FuzzPHC(f *testing.F) {
	f.Add("$argon2id$v=19$m=64,t=1,p=1,l=32$MDEyMzQ1Njc4OWFiY2RlZg$MjZP1+1U9JUbDWvDvtLyEsZiNXOKEUxfi6O2oe46uxA")
	f.Add("$argon2id$v=19$m=8,t=1,p=4$QUFBQUFBQUFBQUFBQUFBQQ$AAAA")
	f.Fuzz(func(t *testing.T, s string) {
		p, err := phc.ParsePHC(s)
		if err != nil {
			return
		}
		if _, err := phc.ParsePHC(p.String()); err != nil {
			t.Fatalf("String() of a parsed PHC does not parse: %v", err)
		}
		var q phc.PHC
		q.Scan(s)
	})
}
`

func c16RunFuzz(b core.Batch, r *core.Recorder) {
	repo := os.Getenv("VERIF_REPO_EFFECTIVE")
	if repo == "" {
		repo = "/repo"
	}
	wd, _ := os.Getwd()
	dir := filepath.Join(wd, "fuzzscratch")
	os.MkdirAll(dir, 0o755)
	os.WriteFile(filepath.Join(dir, "fuzz_test.go"), []byte(c16fuzzSrc), 0o644)
	os.WriteFile(filepath.Join(dir, "go.mod"), []byte("module fuzzscratch\n\ngo 1.26\n\nrequire reservoir v0.0.0\n\nreplace reservoir => "+repo+"\n"), 0o644)
	sum, _ := os.ReadFile(filepath.Join(repo, "go.sum"))
	os.WriteFile(filepath.Join(dir, "go.sum"), sum, 0o644)
	run := func(args ...string) (string, error) {
		cmd := execCommand("go", args...)
		cmd.Dir = dir
		cmd.Env = append(os.Environ(), "GOFLAGS=-mod=mod", "GOPROXY=off", "GOTOOLCHAIN=auto", "HOME="+os.Getenv("HOME"))
		out, err := cmd.CombinedOutput()
		return string(out), err
	}
	if out, err := run("test", "-c", "-o", "fuzz.test", "."); err != nil {
		r.Inconclusive("cannot build the fuzz test binary: " + core.Trunc(out, 400))
		return
	}
	execs := b.Int("execs", 300000)
	for _, target := range []string{"FuzzHeaders", "FuzzCacheKey", "FuzzByteSize", "FuzzPHC"} {
		if !r.Case(target, execs) {
			continue
		}
		cmd := execCommand(filepath.Join(dir, "fuzz.test"), "-test.run=^$", "-test.fuzz=^"+target+"$", fmt.Sprintf("-test.fuzztime=%dx", execs), "-test.fuzzcachedir="+filepath.Join(dir, "cache"), "-test.parallel=8")
		cmd.Dir = dir
		outB, err := cmd.CombinedOutput()
		out := string(outB)
		r.Eval(int64(execs))
		r.Count("fuzz_execs", int64(execs))
		r.Nontrivial("fuzz", target)
		// "new interesting" inputs found by coverage guidance
		if i := strings.LastIndex(out, "new interesting: "); i >= 0 {
			var n int64
			fmt.Sscanf(out[i:], "new interesting: %d", &n)
			r.Count("fuzz_new_interesting_inputs", n)
		}
		if err != nil {
			crasher := ""
			if files, _ := filepath.Glob(filepath.Join(dir, "testdata", "fuzz", target, "*")); len(files) > 0 {
				cb, _ := os.ReadFile(files[0])
				crasher = string(cb)
			}
			frame := core.FirstReservoirFrame(out)
			r.Violation("C16", "C16:fuzz:"+target+":"+frame, fmt.Sprintf("coverage-guided fuzzing of %s found a failing input: %s", target, core.Trunc(crasher, 300)), map[string]any{"id": target, "crasher": crasher}, core.Trunc(out, 4000))
		}
	}
	r.Sample(map[string]any{"part": "fuzz", "targets": []string{"FuzzHeaders", "FuzzCacheKey", "FuzzByteSize", "FuzzPHC"}, "execs_per_target": execs, "engine": "Go native fuzzing (coverage-guided), test binary built in a scratch module against the checked tree"})
	os.RemoveAll(dir)
}

func c16Run(b core.Batch, r *core.Recorder) {
	switch b.Str("part", "func") {
	case "func":
		c16RunFunc(b, r)
	case "fuzz":
		c16RunFuzz(b, r)
	default:
		c16RunWire(b, r)
	}
}

func c16Plan(tier string, seed int64) []core.Batch {
	nf, nw, parts := 12000, 250, 4
	if tier == "thorough" {
		nf, nw, parts = 600000, 15000, 12
	}
	var bs []core.Batch
	for p := 0; p < parts; p++ {
		bs = append(bs, core.Batch{Name: fmt.Sprintf("func-%d", p), TimeoutS: 2400, Args: map[string]any{"part": "func", "n": nf}})
	}
	for p := 0; p < 2; p++ {
		bs = append(bs, core.Batch{Name: fmt.Sprintf("wire-%d", p), TimeoutS: 2400, Args: map[string]any{"part": "wire", "n": nw}})
	}
	if tier == "thorough" {
		bs = append(bs, core.Batch{Name: "fuzz", TimeoutS: 2400, Args: map[string]any{"part": "fuzz", "execs": 400000}})
	}
	return bs
}

func init() {
	core.Register(&core.Monitor{
		ID:    "C16",
		Level: "exploration",
		Rule: "entry points under recover, seeded mutation (byte flips, run deletion/duplication, special-token insertion, truncation, repetition; 0-3 rounds) of grammar seeds: header sets over Range/Cache-Control/Expires/If-Range/conditionals through ParseHeaderDirective + ShouldCache + GetExpiresOrDefault + SliceSize + StripRegularConditionals; request targets through http.ReadRequest + MakeFromRequest; size and duration strings (Parse/String/JSON); PHC strings (ParsePHC/Scan/JSON, VerifyArgon2id only for m<=1 MiB, t<=2); CONNECT targets through GetCertForHost; mutated configuration files through LoadOrDefault and as update documents. " +
			"wire: generated request bytes (methods, 10 path forms, 6 target forms, mutated Range/If-Range/Cache-Control/conditional headers, oversized headers, Host variants) plain and inside a tunnel, CONNECT with 10 odd targets, against a raw origin answering with one of 28 response heads (duplicate/negative/overflowing Content-Length, broken chunking, odd status lines, binary and oversized headers, 304/206/416 oddities, truncated body), both backends, both retry settings. Oracles: no panic (recover / server error log / process abort); every well-formed request gets a well-formed response. Non-trivial = distinct input.",
		Assumptions: []string{"argon2 parameter sets that would exhaust memory are parsed but not verified (resource exhaustion is not addressed)", "for requests Go's HTTP server itself rejects, and for odd CONNECT targets, only the absence of a panic is demanded", "Go's native coverage-guided fuzzer runs in the thorough tier only (4 targets, test binary built in a scratch module that is removed afterwards); the quick tier uses seeded mutation"},
		Plan:        c16Plan,
		Run:         c16Run,
		Parallel:    6,
		Floors:      map[string]map[string]int64{"quick": {"wire_cases": 1500, "wire_answered": 800}, "thorough": {"wire_cases": 100000, "wire_answered": 50000}},
	})
}
