package mon

// C04 — exactly the storable responses are stored.
//
// Reference predicate storable(method, status, headers, policy) in {must, must-not,
// unconstrained} written from the statement. Function level: ShouldCache over generated
// header sets. End to end (deciding): two sequential requests per case through the real
// proxy; the origin log tells whether the second one reached the origin (and whether it
// came as a conditional built from stored validators), the body version tells which
// answer was served.

import (
	"fmt"
	"net/http"
	"os"
	"path/filepath"
	"reservoir/config"
	"strings"
	"sync"
	"time"

	"reservoir/proxy/headers"
	"verifharness/core"
	"verifharness/rig"
)

type c04hdr struct {
	CC       []string `json:"cache_control_lines"`
	Expires  string   `json:"expires,omitempty"`
	HasExp   bool     `json:"has_expires"`
	Class    string   `json:"class"` // directive class
	Form     string   `json:"form"`  // decoration
	ExpClass string   `json:"expires_class"`
}

func (h c04hdr) header() http.Header {
	out := http.Header{}
	for _, l := range h.CC {
		out.Add("Cache-Control", l)
	}
	if h.HasExp {
		out.Set("Expires", h.Expires)
	}
	return out
}

// directive view of a header set, by the letter of RFC 9111 list syntax: names are
// case-insensitive, all field lines count, items are comma separated.
type c04view struct {
	prohibit   []string // no-store, no-cache (unqualified), private (unqualified), max-age=0
	posMaxAge  bool
	anyCC      bool
	odd        bool // something whose meaning the statement does not fix (qualified forms, invalid/duplicate max-age, ...)
	expPast    bool // Expires present and in the past or unparseable
	expPresent bool
}

func c04parse(h c04hdr) c04view {
	var v c04view
	maxAges := 0
	for _, line := range h.CC {
		v.anyCC = true
		for _, item := range strings.Split(line, ",") {
			item = strings.TrimSpace(item)
			if item == "" {
				continue
			}
			name, val, hasVal := strings.Cut(item, "=")
			name = strings.ToLower(strings.TrimSpace(name))
			val = strings.Trim(strings.TrimSpace(val), "\"")
			switch name {
			case "no-store":
				if hasVal {
					v.odd = true
				} else {
					v.prohibit = append(v.prohibit, "no-store")
				}
			case "no-cache", "private":
				if hasVal {
					v.odd = true // qualified form: applies to the listed fields only
				} else {
					v.prohibit = append(v.prohibit, name)
				}
			case "max-age":
				maxAges++
				n := int64(-1)
				ok := hasVal && val != ""
				if ok {
					n = 0
					for _, c := range val {
						if c < '0' || c > '9' {
							ok = false
							break
						}
						if n < 1<<40 {
							n = n*10 + int64(c-'0')
						}
					}
				}
				switch {
				case !ok:
					v.odd = true
				case n == 0:
					v.prohibit = append(v.prohibit, "max-age=0")
				default:
					v.posMaxAge = true
				}
			}
		}
	}
	if maxAges > 1 {
		v.odd = true
	}
	if h.HasExp {
		v.expPresent = true
		t, err := http.ParseTime(h.Expires)
		if err != nil || t.Before(time.Now()) {
			v.expPast = true
		}
	}
	return v
}

// c04predicate returns must | must-not | unconstrained and the reason.
func c04predicate(method string, status int, h c04hdr, ignore bool) (string, string) {
	if method != "GET" {
		return "must-not", "non-get:" + method
	}
	if status != 200 {
		return "must-not", fmt.Sprintf("non-200:%d", status)
	}
	if ignore {
		return "must", "directives-ignored"
	}
	v := c04parse(h)
	if len(v.prohibit) > 0 {
		return "must-not", v.prohibit[0]
	}
	if v.posMaxAge && !v.odd {
		if v.expPast {
			return "unconstrained", "positive max-age with past Expires"
		}
		return "must", "positive-max-age"
	}
	if v.expPast {
		if v.anyCC && v.odd {
			return "unconstrained", "odd directives"
		}
		return "must-not", "expired:" + h.ExpClass
	}
	if !v.anyCC {
		return "must", "no-cache-control"
	}
	return "unconstrained", "other directives only"
}

// ---- generation ---------------------------------------------------------------------------

func c04case(s string, mode int) string {
	switch mode {
	case 1:
		return strings.ToUpper(s)
	case 2:
		var b strings.Builder
		for i, c := range s {
			if i%2 == 0 {
				b.WriteString(strings.ToUpper(string(c)))
			} else {
				b.WriteRune(c)
			}
		}
		return b.String()
	}
	return s
}

var c04classes = []string{"none", "no-store", "no-cache", "private", "max-age=0", "max-age=60", "max-age=86400", "public", "unknown", "s-maxage=10",
	"max-age=abc", "no-store+max-age=60", "private+max-age=60", "no-cache+max-age=3600", "no-store+max-age=abc", "max-age=60+max-age=0", "no-cache=\"set-cookie\"", "max-age=00", "max-age=-1", "max-age=\"0\"", "max-age=1.5"}

var c04expClasses = []string{"absent", "absent", "absent", "future-imf", "past-imf", "past-rfc850", "past-asctime", "zero", "minus-one", "garbage", "future-rfc850", "empty"}

func c04expires(class string) (string, bool) {
	past := time.Now().Add(-48 * time.Hour).UTC()
	fut := time.Now().Add(48 * time.Hour).UTC()
	switch class {
	case "absent":
		return "", false
	case "future-imf":
		return fut.Format(http.TimeFormat), true
	case "past-imf":
		return past.Format(http.TimeFormat), true
	case "past-rfc850":
		return past.Format("Monday, 02-Jan-06 15:04:05 GMT"), true
	case "future-rfc850":
		return fut.Format("Monday, 02-Jan-06 15:04:05 GMT"), true
	case "past-asctime":
		return past.Format(time.ANSIC), true
	case "zero":
		return "0", true
	case "minus-one":
		return "-1", true
	case "garbage":
		return "soon-ish", true
	case "empty":
		return "", true
	}
	return "", false
}

// c04gen builds header set number i deterministically from the batch PRNG.
func c04gen(b core.Batch, i int) c04hdr {
	rng := b.Rand(fmt.Sprintf("c04-h-%d", i))
	class := c04classes[i%len(c04classes)]
	h := c04hdr{Class: class}
	var items []string
	if class != "none" {
		for _, it := range strings.Split(class, "+") {
			if it == "unknown" {
				it = "x-verif=1"
			}
			items = append(items, it)
		}
	}
	form := []string{"plain", "case-upper", "case-mixed", "second-line", "third-line", "after-unknown", "no-space", "extra-space", "repeated", "reversed", "after-empty-line", "before-empty-line"}[rng.IntN(12)]
	if class == "none" {
		form = "plain"
	}
	h.Form = form
	switch form {
	case "case-upper":
		for k := range items {
			items[k] = c04case(items[k], 1)
		}
	case "case-mixed":
		for k := range items {
			items[k] = c04case(items[k], 2)
		}
	case "after-unknown":
		items = append([]string{"x-first=1", "public"}, items...)
	case "repeated":
		items = append(items, items...)
	case "reversed":
		for l, r := 0, len(items)-1; l < r; l, r = l+1, r-1 {
			items[l], items[r] = items[r], items[l]
		}
	}
	sep := ", "
	if form == "no-space" {
		sep = ","
	}
	if form == "extra-space" {
		sep = " ,  "
	}
	switch form {
	case "second-line":
		h.CC = []string{"public", strings.Join(items, sep)}
	case "third-line":
		h.CC = []string{"x-a=1", "public", strings.Join(items, sep)}
	case "after-empty-line":
		h.CC = []string{"", strings.Join(items, sep)} // an empty first Cache-Control field line, the directives on the second
	case "before-empty-line":
		h.CC = []string{strings.Join(items, sep), ""}
	default:
		if len(items) > 0 {
			h.CC = []string{strings.Join(items, sep)}
		}
	}
	h.ExpClass = c04expClasses[rng.IntN(len(c04expClasses))]
	h.Expires, h.HasExp = c04expires(h.ExpClass)
	return h
}

// ---- function level ------------------------------------------------------------------------

func c04RunFunc(b core.Batch, r *core.Recorder) {
	n := b.Int("n", 20000)
	for i := 0; i < n; i++ {
		h := c04gen(b, i)
		for _, ignore := range []bool{false, true} {
			r.Eval(1)
			want, why := c04predicate("GET", 200, h, ignore)
			got := headers.ParseHeaderDirective(h.header()).ShouldCache(ignore)
			r.Nontrivial(h.CC, h.Expires, ignore)
			if want == "unconstrained" {
				r.NotJudged("unconstrained")
				continue
			}
			if (want == "must") != got {
				sig := fmt.Sprintf("C04:func:%s:%s:%s", map[bool]string{true: "storable-despite", false: "not-storable-although-must"}[got], strings.SplitN(why, ":", 2)[0]+c04expTag(why), c04formTag(h, why))
				r.Violation("C04", sig, fmt.Sprintf("ShouldCache(ignore=%v)=%v for %v / Expires=%q, the statement says %s (%s)", ignore, got, h.CC, h.Expires, want, why),
					map[string]any{"id": fmt.Sprintf("f%d", i), "headers": h, "ignore": ignore}, nil)
			}
		}
		if i == 3 {
			r.Sample(map[string]any{"mode": "func", "header_set": h})
		}
	}
}

func c04expTag(why string) string {
	if strings.HasPrefix(why, "expired:") {
		return ":" + strings.TrimPrefix(why, "expired:")
	}
	return ""
}

// c04formTag names the decoration only when it is what distinguishes the case from the plain form.
func c04formTag(h c04hdr, why string) string {
	switch h.Form {
	case "second-line", "third-line", "after-empty-line":
		return "later-header-line"
	case "case-upper", "case-mixed":
		return "directive-case"
	}
	if strings.Contains(h.Class, "abc") || strings.Contains(h.Class, "1.5") || strings.Contains(h.Class, "-1") {
		return "next-to-invalid-max-age"
	}
	return "plain"
}

// ---- end to end -------------------------------------------------------------------------------

type c04e2e struct {
	ID     string `json:"id"`
	Method string `json:"method"`
	Status int    `json:"status"`
	H      c04hdr `json:"headers"`
	Ignore bool   `json:"ignore_cache_control"`
	Force  bool   `json:"force_default_max_age"`
	Mode   string `json:"transport"`
}

type c04world struct {
	mu      sync.Mutex
	cases   map[string]c04e2e
	counter map[string]int
}

func (w *c04world) handler(rw http.ResponseWriter, q *http.Request, rec *rig.OriginReq) {
	id := strings.Trim(q.URL.Path, "/")
	w.mu.Lock()
	c, ok := w.cases[id]
	w.counter[id]++
	ver := w.counter[id]
	w.mu.Unlock()
	if !ok {
		rw.WriteHeader(599)
		return
	}
	rec.SetNote(id)
	if pre := q.Header.Get("X-Verif-Earlier"); pre != "" {
		// the URL's earlier life: an answer that cannot be stored (the case proper follows)
		if pre == "no-store" {
			rw.Header().Set("Cache-Control", "no-store")
			rw.WriteHeader(200)
			rw.Write([]byte("an earlier unstorable answer"))
		} else {
			rw.WriteHeader(404)
			rw.Write([]byte("not there yet"))
		}
		return
	}
	for _, l := range c.H.CC {
		rw.Header().Add("Cache-Control", l)
	}
	if c.H.HasExp {
		rw.Header()["Expires"] = []string{c.H.Expires}
	}
	rw.Header().Set("ETag", rig.ETag(1, ver))
	rw.Header().Set("Content-Type", "application/x-verif")
	rw.Header().Set("X-Answer", fmt.Sprint(ver))
	rw.WriteHeader(c.Status)
	if q.Method != "HEAD" && c.Status != 204 && c.Status != 304 {
		rw.Write(rig.Body(1, ver, 200))
	}
}

func c04RunE2E(b core.Batch, r *core.Recorder) {
	rig.QuietLogs()
	w := &c04world{cases: map[string]c04e2e{}, counter: map[string]int{}}
	o := rig.StartOrigin(w.handler)
	defer o.Close()
	backend := b.Str("backend", "memory")
	mode := rig.Mode(b.Str("transport", "plain"))
	type pol struct{ ignore, force bool }
	proxies := map[pol]*rig.ProxyRig{}
	for _, p := range []pol{{false, false}, {true, false}, {false, true}, {true, true}} {
		proxies[p] = rig.StartProxy(rig.ProxyOpts{Backend: backend, IgnoreCC: p.ignore, ForceDefault: p.force})
		defer proxies[p].Close()
	}
	// a fifth proxy is built from a default configuration whose policy settings nobody touched before NewProxy (as in
	// production); its policy is switched through the API entry point right before a case ("at any point of a history")
	var live *rig.ProxyRig
	{
		wd, _ := os.Getwd()
		os.MkdirAll("var", 0o755)
		cfg := config.NewDefault()
		cfg.Cache.File.Dir.Overwrite(filepath.Join(wd, "c04livecache"))
		cfg.Cache.Type.Overwrite(config.CacheType(backend))
		if lp, err := rig.StartProxyWith(cfg); err == nil {
			live = lp
			defer live.Close()
		}
	}
	n := b.Int("n", 300)
	methods := []string{"GET", "GET", "GET", "GET", "HEAD", "POST", "PUT", "PATCH", "DELETE", "OPTIONS"}
	statuses := []int{200, 200, 200, 200, 200, 200, 201, 203, 204, 206, 301, 302, 304, 307, 400, 404, 410, 416, 500, 503}
	rng := b.Rand("c04-e2e")
	for i := 0; i < n; i++ {
		c := c04e2e{ID: fmt.Sprintf("%s-%s-%d", backend, mode, i), H: c04gen(b, i), Mode: string(mode)}
		c.Method = methods[rng.IntN(len(methods))]
		c.Status = statuses[rng.IntN(len(statuses))]
		if i%3 == 0 {
			c.Method, c.Status = "GET", 200
		}
		po := pol{rng.IntN(3) == 0, rng.IntN(3) == 0}
		c.Ignore, c.Force = po.ignore, po.force
		if !r.Case(c.ID, c) {
			continue
		}
		w.mu.Lock()
		w.cases[c.ID] = c
		w.mu.Unlock()
		p := proxies[po]
		if live != nil && i%4 == 3 {
			st, err := config.UpdatePartialFromConfig(live.Cfg, map[string]any{"proxy": map[string]any{"cache_policy": map[string]any{"ignore_cache_control": po.ignore, "force_default_max_age": po.force}}})
			if err == nil && st != config.UpdateStatusFailed {
				p = live
				r.Count("e2e_cases_after_a_run_time_policy_change", 1)
			}
		}
		q := rig.Req{Method: c.Method, Target: "/" + c.ID}
		if c.Method == "POST" || c.Method == "PUT" || c.Method == "PATCH" {
			q.Body = []byte("x=1")
		}
		if i%5 == 1 && c.Method == "GET" {
			// "at any point of a request history": the same URL answered something unstorable once before
			pre := []string{"404", "no-store"}[(i/5)%2]
			if c.Ignore {
				pre = "404" // with directives ignored a 200 marked no-store is storable: it would not be an unstorable earlier answer
			}
			rig.Do(p, mode, o.Addr, rig.Req{Method: "GET", Target: "/" + c.ID, Header: [][2]string{{"X-Verif-Earlier", pre}}})
			w.mu.Lock()
			w.counter[c.ID] = 0
			w.mu.Unlock()
			r.Count("e2e_cases_after_an_unstorable_answer_for_the_same_url", 1)
		}
		r1 := rig.Do(p, mode, o.Addr, q)
		seq := o.LastSeq()
		t0 := time.Now()
		r2 := rig.Do(p, mode, o.Addr, q)
		elapsed := time.Since(t0)
		var second []rig.OriginReq
		for _, g := range o.Since(seq) {
			if g.Note == c.ID {
				second = append(second, g)
			}
		}
		r.Eval(1)
		want, why := c04predicate(c.Method, c.Status, c.H, c.Ignore)
		r.Nontrivial(c.Method, c.Status, c.H.CC, c.H.ExpClass, c.Ignore, c.Force, c.Mode, backend)
		if r1.Err != nil || r2.Err != nil {
			r.NotJudged("exchange-failed") // delivery problems are C08/C09's business
			continue
		}
		obs := "plain-contact"
		if len(second) == 0 {
			obs = "no-contact"
		} else {
			for _, g := range second {
				if g.Header.Get("If-None-Match") != "" || g.Header.Get("If-Modified-Since") != "" {
					obs = "conditional-contact"
				}
			}
		}
		r.Count("e2e_"+want, 1)
		r.Count("e2e_obs_"+obs, 1)
		cs := map[string]any{"id": c.ID, "case": c}
		wit := map[string]any{"second_request_observation": obs, "first": map[string]any{"status": r1.Status, "x_cache": r1.Get("X-Cache"), "answer": r1.Get("X-Answer")},
			"second": map[string]any{"status": r2.Status, "x_cache": r2.Get("X-Cache"), "answer": r2.Get("X-Answer"), "cache_status": r2.Get("Cache-Status")}, "origin_requests_for_second": second, "predicate": want + " (" + why + ")"}
		switch want {
		case "must-not":
			if obs != "plain-contact" {
				reason := strings.SplitN(why, ":", 2)[0]
				sig := fmt.Sprintf("C04:stored-despite:%s%s:%s", reason, c04expTag(why), c04formTag(c.H, why))
				if strings.HasPrefix(why, "non-") {
					sig = "C04:stored-despite:" + why
				}
				r.Violation("C04", sig, fmt.Sprintf("%s %d with %v Expires=%q (ignore=%v force=%v): the second request was answered from the store (%s) although the response must not be stored (%s)", c.Method, c.Status, c.H.CC, c.H.Expires, c.Ignore, c.Force, obs, why), cs, wit)
			}
		case "must":
			// lifetimes are >= 60 s or the 1 h default: the second request (ms later) must be a pure reuse,
			// unless the entry's own lifetime is not positive (ignore policy storing an expired response)
			stale := c.Ignore && !c.Force && c04parse(c.H).expPast && !c04parse(c.H).posMaxAge
			switch {
			case obs == "no-contact":
			case obs == "conditional-contact" && stale:
				// stored, found stale at once, revalidated with the stored validator: it was stored
			default:
				if elapsed > 20*time.Second {
					r.NotJudged("second-request-too-late")
					continue
				}
				r.Violation("C04", fmt.Sprintf("C04:not-stored-although-must:%s:%s", strings.SplitN(why, ":", 2)[0], c04formTag(c.H, why)),
					fmt.Sprintf("GET 200 with %v Expires=%q (ignore=%v force=%v): the second request reached the origin (%s) although the response must be stored and reused (%s)", c.H.CC, c.H.Expires, c.Ignore, c.Force, obs, why), cs, wit)
			}
		default:
			r.NotJudged("unconstrained")
		}
		if i < 2 {
			r.Sample(c)
		}
	}
}

// c04retry416: the origin refuses a Range request with 416; the proxy's automatic retry without Range gets a 200
// whose directives decide storability. Afterwards a plain GET shows whether that 200 was stored.
func c04retry416(b core.Batch, r *core.Recorder, backend string, mode rig.Mode) {
	var mu sync.Mutex
	count := map[string]int{}
	classes := map[string]string{"nostore": "no-store", "private": "private", "maxage0": "max-age=0", "storable": "max-age=600", "none": ""}
	o := rig.StartOrigin(func(w http.ResponseWriter, q *http.Request, rec *rig.OriginReq) {
		id := strings.Trim(q.URL.Path, "/")
		rec.SetNote(id)
		if q.Header.Get("Range") != "" {
			w.Header().Set("Content-Range", "bytes */200")
			w.WriteHeader(416)
			return
		}
		mu.Lock()
		count[id]++
		v := count[id]
		mu.Unlock()
		cc := classes[strings.SplitN(id, "-", 2)[0]]
		rig.ServeBody(w, 2, v, 200, map[string]string{"Cache-Control": cc})
	})
	defer o.Close()
	p := rig.StartProxy(rig.ProxyOpts{Backend: backend, Retry416: true})
	defer p.Close()
	n := 0
	for class, cc := range classes {
		n++
		id := fmt.Sprintf("%s-%s-%s-%d", class, backend, mode, n)
		if !r.Case(id, cc) {
			continue
		}
		r.Eval(1)
		rig.Do(p, mode, o.Addr, rig.Req{Target: "/" + id, Header: [][2]string{{"Range", "bytes=5-9"}}})
		seq := o.LastSeq()
		r2 := rig.Do(p, mode, o.Addr, rig.Req{Target: "/" + id})
		contacted := false
		for _, g := range o.Since(seq) {
			if g.Note == id {
				contacted = true
			}
		}
		r.Count("retry416_cases", 1)
		r.Nontrivial("retry416", class, backend, string(mode))
		if r2.Err != nil {
			r.NotJudged("exchange-failed")
			continue
		}
		mustNot := class == "nostore" || class == "private" || class == "maxage0"
		if mustNot && !contacted {
			r.Violation("C04", "C04:stored-despite:"+cc+":after-416-retry", fmt.Sprintf("a Range request was refused by the origin (416), the proxy's retry without Range got a 200 marked %q; the following plain GET was answered from the store", cc),
				map[string]any{"id": id, "class": class}, map[string]any{"x_cache": r2.Get("X-Cache"), "cache_status": r2.Get("Cache-Status")})
		}
	}
}

func c04Run(b core.Batch, r *core.Recorder) {
	if b.Str("mode", "e2e") == "func" {
		c04RunFunc(b, r)
	} else {
		c04RunE2E(b, r)
		c04retry416(b, r, b.Str("backend", "memory"), rig.Mode(b.Str("transport", "plain")))
	}
}

func c04Plan(tier string, seed int64) []core.Batch {
	nf, ne := 30000, 420
	if tier == "thorough" {
		nf, ne = 2000000, 40000
	}
	bs := []core.Batch{{Name: "func", TimeoutS: 1200, Args: map[string]any{"mode": "func", "n": nf}}}
	for _, be := range []string{"memory", "file"} {
		for _, tr := range []string{"plain", "tunnel"} {
			bs = append(bs, core.Batch{Name: "e2e-" + be + "-" + tr, TimeoutS: 1800, Args: map[string]any{"mode": "e2e", "backend": be, "transport": tr, "n": ne}})
		}
	}
	return bs
}

func init() {
	core.Register(&core.Monitor{
		ID:    "C04",
		Level: "exploration",
		Rule: "header sets = directive class (21 classes: none, no-store, no-cache, private, max-age=0/60/86400, public, unknown, s-maxage, invalid and duplicate max-age forms, combinations) x decoration (plain, upper/mixed case, 2nd/3rd Cache-Control line, after / before an empty Cache-Control line, after unknown directives, spacing, repetition, reversed order) x Expires class (absent, future/past IMF, past RFC 850, past asctime, '0', '-1', garbage, empty); " +
			"function level: ShouldCache(ignore) vs the reference predicate for every generated set; end to end: method from 7, status from 15, one of the 4 cache_policy combinations (fixed at start, or - every 4th case - switched through the API entry point on a proxy built from an untouched default configuration), two sequential requests per case (every 5th GET case after the same URL answered 404 / no-store once) through the real proxy (both transports/backends); the origin log classifies the second request as no-contact / conditional-contact / plain-contact. Non-trivial = distinct (method, status, header set, policy, transport, backend).",
		Assumptions: []string{"public, s-maxage, qualified no-cache/private, invalid or duplicate max-age without a prohibiting directive are unconstrained (not judged)", "positive max-age together with a past Expires is unconstrained",
			"an entry stored under the ignore policy whose own lifetime is already over may be revalidated at once (conditional contact counts as 'was stored')"},
		Plan:     c04Plan,
		Run:      c04Run,
		Parallel: 5,
		Floors:   map[string]map[string]int64{"quick": {"e2e_must": 150, "e2e_must-not": 400, "e2e_cases_after_a_run_time_policy_change": 200}, "thorough": {"e2e_must": 3000, "e2e_must-not": 8000, "e2e_cases_after_a_run_time_policy_change": 4000}},
	})
}
