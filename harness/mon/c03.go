package mon

// C03 — a stored response is reused only while fresh; expiry forces an origin contact;
// HIT / Age / ttl are truthful.
//
// Function level: GetExpiresOrDefault between two clock reads vs the reference lifetime.
// Proxy level: one sequential client per resource (so origin contacts are attributable),
// many resources in parallel, probes placed well inside and well after the lifetime;
// verdicts are interval arithmetic that stays sound under arbitrary delay.

import (
	"fmt"
	"net/http"
	"regexp"
	"strconv"
	"strings"
	"sync"
	"time"

	"reservoir/proxy/headers"
	"reservoir/utils/duration"
	"verifharness/core"
	"verifharness/rig"
)

// c03lifetime is the reference: kind = "relative" (L from the moment of storing), "absolute" (until At),
// "expired" (never fresh) or "unknown" (statement does not fix it).
type c03life struct {
	Kind string
	L    time.Duration
	At   time.Time
}

func c03reference(h c04hdr, force bool, def time.Duration) c03life {
	if force {
		return c03life{Kind: "relative", L: def}
	}
	v := c04parse(h)
	// max-age: exactly one well-formed positive value
	n, count, bad := int64(0), 0, false
	for _, line := range h.CC {
		for _, item := range strings.Split(line, ",") {
			name, val, hasVal := strings.Cut(strings.TrimSpace(item), "=")
			if strings.ToLower(strings.TrimSpace(name)) != "max-age" {
				continue
			}
			count++
			val = strings.Trim(strings.TrimSpace(val), "\"")
			x, err := strconv.ParseInt(val, 10, 64)
			if !hasVal || err != nil || x < 0 {
				bad = true
			} else {
				n = x
			}
		}
	}
	if count > 1 || bad {
		return c03life{Kind: "unknown"}
	}
	if count == 1 && n > 0 {
		if n > 3_000_000_000 {
			// more than ~95 years: any expiry at least that far away is accepted
			return c03life{Kind: "atleast", L: 3_000_000_000 * time.Second}
		}
		return c03life{Kind: "relative", L: time.Duration(n) * time.Second}
	}
	if v.expPresent {
		t, err := http.ParseTime(h.Expires)
		if err != nil {
			return c03life{Kind: "expired"}
		}
		return c03life{Kind: "absolute", At: t}
	}
	return c03life{Kind: "relative", L: def}
}

var c03maxAges = []string{"1", "2", "59", "60", "3600", "86400", "31536000", "2147483648", "9223372036", "9223372037", "99999999999", "9223372036854775807"}

func c03RunFunc(b core.Batch, r *core.Recorder) {
	n := b.Int("n", 20000)
	rng := b.Rand("c03-func")
	for i := 0; i < n; i++ {
		h := c04gen(b, i)
		if i%2 == 0 {
			// lifetime-bearing variant: max-age=N in a random decoration
			ma := "max-age=" + c03maxAges[rng.IntN(len(c03maxAges))]
			switch rng.IntN(5) {
			case 0:
				h.CC = []string{strings.ToUpper(ma)}
			case 1:
				h.CC = []string{"public", ma}
			case 2:
				h.CC = []string{"x-a=1, " + ma + " , public"}
			case 3:
				h.CC = []string{strings.Replace(ma, "=", "=\"", 1) + "\""}
			default:
				h.CC = []string{ma}
			}
			h.Class, h.Form = ma, "lifetime"
		}
		for _, force := range []bool{false, true} {
			def := []time.Duration{40 * time.Millisecond, time.Second, time.Hour}[rng.IntN(3)]
			ref := c03reference(h, force, def)
			t0 := time.Now()
			got := headers.ParseHeaderDirective(h.header()).GetExpiresOrDefault(force, def)
			t1 := time.Now()
			r.Eval(1)
			r.Nontrivial(h.CC, h.Expires, force, def)
			cs := map[string]any{"id": fmt.Sprintf("f%d", i), "headers": h, "force": force, "default": def.String()}
			bad := ""
			switch ref.Kind {
			case "unknown":
				r.NotJudged("lifetime-not-fixed-by-statement")
				continue
			case "relative":
				lo, hi := t0.Add(ref.L), t1.Add(ref.L)
				if got.Before(lo.Add(-time.Millisecond)) || got.After(hi.Add(time.Millisecond)) {
					bad = fmt.Sprintf("lifetime %v expected, got %v", ref.L, got.Sub(t0).Round(time.Millisecond))
				}
			case "atleast":
				if got.Before(t0.Add(ref.L)) {
					bad = fmt.Sprintf("a lifetime of at least %v expected, got %v", ref.L, got.Sub(t0).Round(time.Millisecond))
				}
			case "absolute":
				if !got.Equal(ref.At) {
					bad = fmt.Sprintf("expiry %v expected (Expires header), got %v", ref.At.UTC(), got.UTC())
				}
			case "expired":
				if got.After(t1) {
					bad = fmt.Sprintf("unparseable Expires must count as already expired, got a lifetime of %v", got.Sub(t0).Round(time.Millisecond))
				}
			}
			if bad != "" {
				src := "default"
				switch {
				case force:
					src = "forced-default"
				case ref.Kind == "atleast":
					src = "max-age-beyond-int64-nanoseconds"
				case ref.Kind == "relative" && ref.L != def:
					src = "max-age"
				case ref.Kind == "absolute":
					src = "expires"
				case ref.Kind == "expired":
					src = "unparseable-expires"
				}
				r.Violation("C03", "C03:func:wrong-lifetime:"+src+":"+c04formTag(h, ""), fmt.Sprintf("%v Expires=%q force=%v default=%v: %s", h.CC, h.Expires, force, def, bad), cs, nil)
			}
		}
	}
	r.Sample(map[string]any{"mode": "func", "n": n, "max_age_values": c03maxAges})
}

// ---- proxy level ----------------------------------------------------------------------------

type c03res struct {
	ID       string        `json:"id"`
	CC       []string      `json:"cache_control"`
	ExpIn    time.Duration `json:"expires_in_ns"` // 0 = no Expires; <0 garbage marker
	ExpRaw   string        `json:"expires_raw,omitempty"`
	Ignore   bool          `json:"ignore"`
	Force    bool          `json:"force"`
	Def      time.Duration `json:"default_ns"`
	Kind     string        `json:"kind"`
	DateSkew time.Duration `json:"origin_date_skew_ns,omitempty"`
}

type c03world struct {
	mu  sync.Mutex
	res map[string]*c03res
	exp map[string]string // per resource Expires header value fixed at first answer
	ver map[string]int
}

func (w *c03world) handler(rw http.ResponseWriter, q *http.Request, rec *rig.OriginReq) {
	id := strings.Trim(q.URL.Path, "/")
	w.mu.Lock()
	c := w.res[id]
	w.ver[id]++
	ver := w.ver[id]
	w.mu.Unlock()
	if c == nil {
		rw.WriteHeader(599)
		return
	}
	rec.SetNote(id)
	if inm := q.Header.Get("If-None-Match"); inm != "" {
		// a revalidation: the content is unchanged
		rw.Header().Set("ETag", inm)
		rw.WriteHeader(304)
		return
	}
	for _, l := range c.CC {
		rw.Header().Add("Cache-Control", l)
	}
	if c.ExpRaw != "" {
		rw.Header()["Expires"] = []string{c.ExpRaw}
	} else if c.ExpIn > 0 {
		rw.Header().Set("Expires", time.Now().Add(c.ExpIn).UTC().Format(http.TimeFormat))
	}
	if c.DateSkew != 0 {
		rw.Header().Set("Date", time.Now().Add(c.DateSkew).UTC().Format(http.TimeFormat)) // the origin's clock is off
	}
	rw.Header().Set("ETag", rig.ETag(3, ver))
	rw.Header().Set("Content-Type", "application/x-verif")
	rw.WriteHeader(200)
	rw.Write(rig.Body(3, ver, 120))
}

var (
	reTTLv = regexp.MustCompile(`ttl=(\d+)`)
)

type c03probe struct {
	Name          string  `json:"name"`
	CallMs, RetMs float64 `json:"call_ms,ret_ms"`
	Contact       bool    `json:"origin_contacted"`
	XCache        string  `json:"x_cache"`
	CacheStatus   string  `json:"cache_status"`
	Age           string  `json:"age"`
	Status        int     `json:"status"`
}

func c03RunProxy(b core.Batch, r *core.Recorder) {
	rig.QuietLogs()
	w := &c03world{res: map[string]*c03res{}, exp: map[string]string{}, ver: map[string]int{}}
	o := rig.StartOrigin(w.handler)
	defer o.Close()
	backend := b.Str("backend", "memory")
	mode := rig.Mode(b.Str("transport", "plain"))
	type pol struct {
		ignore, force bool
		def           time.Duration
	}
	pols := []pol{{false, false, 150 * time.Millisecond}, {false, true, 150 * time.Millisecond}, {true, false, 300 * time.Millisecond}, {true, true, 300 * time.Millisecond}}
	proxies := make([]*rig.ProxyRig, len(pols))
	for i, p := range pols {
		// started with the opposite policy and switched at run time, as an operator would
		proxies[i] = rig.StartProxy(rig.ProxyOpts{Backend: backend, IgnoreCC: !p.ignore, ForceDefault: !p.force, DefaultMaxAge: time.Hour})
		proxies[i].Cfg.Proxy.CachePolicy.IgnoreCacheControl.Overwrite(p.ignore)
		proxies[i].Cfg.Proxy.CachePolicy.ForceDefaultMaxAge.Overwrite(p.force)
		proxies[i].Cfg.Proxy.CachePolicy.DefaultMaxAge.Overwrite(duration.Duration(p.def))
		defer proxies[i].Close()
	}
	kinds := []string{"max-age=2+date-ahead", "max-age=2+date-behind", "max-age=1", "MAX-AGE=1", "public|max-age=2", "expires+2s", "expires+3s", "none", "none", "expires-garbage", "expires-zero", "max-age=1+expires-past", "no-store", "max-age=0", "expires+2s+date-behind", "expires-past+date-older"}
	n := b.Int("n", 120)
	var wg sync.WaitGroup
	sem := make(chan struct{}, b.Int("parallel", 40))
	for i := 0; i < n; i++ {
		pi := i % len(pols)
		p := pols[pi]
		c := &c03res{ID: fmt.Sprintf("%s-%s-%d", backend, mode, i), Ignore: p.ignore, Force: p.force, Def: p.def, Kind: kinds[(i/len(pols))%len(kinds)]}
		switch c.Kind {
		case "max-age=1", "MAX-AGE=1", "no-store", "max-age=0":
			c.CC = []string{c.Kind}
		case "public|max-age=2":
			c.CC = []string{"public", "max-age=2"}
		case "max-age=2+date-ahead":
			c.CC, c.DateSkew = []string{"max-age=2"}, 10*time.Minute
		case "max-age=2+date-behind":
			c.CC, c.DateSkew = []string{"max-age=2"}, -30*time.Second
		case "expires+2s":
			c.ExpIn = 2 * time.Second
		case "expires+3s":
			c.ExpIn = 3 * time.Second
		case "expires+2s+date-behind":
			// the origin's clock (its Date header) is 100 s behind: the entry is still good only until the Expires date
			c.ExpIn, c.DateSkew = 2*time.Second, -100*time.Second
		case "expires-past+date-older":
			c.ExpRaw, c.DateSkew = time.Now().Add(-time.Hour).UTC().Format(http.TimeFormat), -2*time.Hour
		case "expires-garbage":
			c.ExpRaw = "tomorrow"
		case "expires-zero":
			c.ExpRaw = "0"
		case "max-age=1+expires-past":
			c.CC = []string{"max-age=1"}
			c.ExpRaw = time.Now().Add(-time.Hour).UTC().Format(http.TimeFormat)
		}
		if !r.Case(c.ID, c) {
			continue
		}
		w.mu.Lock()
		w.res[c.ID] = c
		w.mu.Unlock()
		wg.Add(1)
		sem <- struct{}{}
		go func() {
			defer wg.Done()
			defer func() { <-sem }()
			c03history(r, proxies[pi], o, mode, c)
		}()
		if i < 2 {
			r.Sample(c)
		}
	}
	wg.Wait()
}

// c03history: store, probe well inside the lifetime, probe well after it.
func c03history(r *core.Recorder, p *rig.ProxyRig, o *rig.Origin, mode rig.Mode, c *c03res) {
	r.Eval(1)
	// reference lifetime in terms of the statement
	h := c04hdr{CC: c.CC}
	if c.ExpRaw != "" {
		h.Expires, h.HasExp = c.ExpRaw, true
	} else if c.ExpIn > 0 {
		h.HasExp = true
		h.Expires = time.Now().Add(c.ExpIn).UTC().Format(http.TimeFormat) // only its parseability matters here
	}
	storable, _ := c04predicate("GET", 200, h, c.Ignore)
	ref := c03reference(h, c.Force, c.Def)
	var L, slack time.Duration // entry is certainly stale after store.return + L + slack, certainly fresh before store.call + L - slack
	switch {
	case ref.Kind == "relative":
		L = ref.L
	case ref.Kind == "absolute" && c.ExpIn > 0:
		L, slack = c.ExpIn, time.Second // HTTP dates have 1 s resolution
	case ref.Kind == "absolute" || ref.Kind == "expired":
		L = 0 // already over when stored
	default:
		r.NotJudged("lifetime-not-fixed-by-statement")
		return
	}
	contact := func(from int) bool {
		for _, g := range o.Since(from) {
			if g.Note == c.ID {
				return true
			}
		}
		return false
	}
	do := func(name string) (*rig.Resp, c03probe) {
		seq := o.LastSeq()
		q := rig.Req{Target: "/" + c.ID}
		if len(c.ID)%2 == 0 {
			// the client's own cache directives must not influence how long the proxy keeps the origin's answer
			q.Header = [][2]string{{"Cache-Control", "max-age=86400"}, {"Expires", time.Now().Add(24 * time.Hour).UTC().Format(http.TimeFormat)}}
		}
		resp := rig.Do(p, mode, o.Addr, q)
		pr := c03probe{Name: name, CallMs: float64(resp.Call) / 1e6, RetMs: float64(resp.Ret) / 1e6, Contact: contact(seq), XCache: resp.Get("X-Cache"), CacheStatus: resp.Get("Cache-Status"), Age: resp.Get("Age"), Status: resp.Status}
		return resp, pr
	}
	var probes []c03probe
	store, sp := do("store")
	probes = append(probes, sp)
	if store.Err != nil || store.Status != 200 {
		r.NotJudged("store-exchange-failed")
		return
	}
	cs := map[string]any{"id": c.ID, "resource": c, "reference_lifetime": fmt.Sprintf("%s %v slack %v", ref.Kind, L, slack)}
	viol := func(sig, what string) {
		r.Violation("C03", "C03:"+sig, what, cs, probes)
	}
	label := func(resp *rig.Resp, pr c03probe) {
		// HIT label <=> served without origin contact
		isHit := pr.XCache == "HIT" && strings.Contains(pr.CacheStatus, "hit") && !strings.Contains(pr.CacheStatus, "revalidated")
		saysHit := pr.XCache == "HIT" || (strings.Contains(pr.CacheStatus, "; hit") && !strings.Contains(pr.CacheStatus, "revalidated"))
		if !pr.Contact && resp.Status == 200 && !isHit {
			viol("label:served-from-store-not-labelled-HIT", fmt.Sprintf("%s probe was served without origin contact but labelled X-Cache=%q Cache-Status=%q", pr.Name, pr.XCache, pr.CacheStatus))
		}
		if pr.Contact && saysHit {
			viol("label:HIT-although-origin-contacted", fmt.Sprintf("%s probe contacted the origin but is labelled X-Cache=%q Cache-Status=%q", pr.Name, pr.XCache, pr.CacheStatus))
		}
	}
	label(store, sp)

	// probe 1: well inside the lifetime (only when the lifetime is long enough to aim at)
	if L >= 100*time.Millisecond {
		frac := 0.25
		if c.DateSkew != 0 {
			frac = 0.65 // more than a second resident, so that the Age lower bound is not trivially 0
		}
		time.Sleep(time.Duration(float64(L-slack) * frac))
		resp, pr := do("fresh")
		probes = append(probes, pr)
		if resp.Err == nil {
			label(resp, pr)
			certainlyFresh := time.Duration(resp.Ret-store.Call) < L-slack
			if certainlyFresh {
				r.Count("judged_fresh_probes", 1)
				if !pr.Contact && storable != "must-not" {
					r.Count("fresh_probes_reused", 1)
					// Age / ttl consistency
					lo := time.Duration(resp.Call-store.Ret) / time.Second
					hi := time.Duration(resp.Ret-store.Call)/time.Second + 2
					if c.DateSkew < 0 {
						// RFC 9111: the age already apparent when the response was received (receipt time - Date) counts
						lo += -c.DateSkew/time.Second - 1
						hi += -c.DateSkew/time.Second + 1
					}
					if a, err := strconv.Atoi(pr.Age); err != nil || int64(a) < int64(lo) || int64(a) > int64(hi) {
						viol("age-inconsistent", fmt.Sprintf("Age=%q, but the entry was stored between %d and %d s ago", pr.Age, lo, hi))
					}
					if m := reTTLv.FindStringSubmatch(pr.CacheStatus); m != nil {
						ttl, _ := strconv.Atoi(m[1])
						tlo := (L - slack - time.Duration(resp.Ret-store.Call)) / time.Second
						thi := (L+slack-time.Duration(resp.Call-store.Ret))/time.Second + 1
						if int64(ttl) < int64(tlo)-1 || int64(ttl) > int64(thi) {
							viol("ttl-inconsistent", fmt.Sprintf("Cache-Status ttl=%d, but %v..%v s of the lifetime remain", ttl, tlo, thi))
						}
						r.Count("ttl_checked", 1)
					} else {
						viol("ttl-missing", "a HIT carries no ttl parameter in Cache-Status: "+pr.CacheStatus)
					}
				}
			} else {
				r.NotJudged("fresh-probe-straddles-boundary")
			}
		}
	}
	// If the previous probe contacted the origin, the entry's lifetime was renewed there: a 304 renews it by
	// the configured default, a fresh 200 starts the header-given lifetime again. Judge from that point.
	if len(probes) > 1 && probes[len(probes)-1].Contact {
		last := probes[len(probes)-1]
		store = &rig.Resp{Call: int64(last.CallMs * 1e6), Ret: int64(last.RetMs*1e6) + 1}
		if last.XCache == "REVALIDATED" {
			L, slack = c.Def, 0
		}
		r.Count("lifetime_renewed_by_early_contact", 1)
	}
	// probe 2: certainly after the lifetime
	wait := L + slack + 60*time.Millisecond - time.Duration(rig.Now()-store.Ret)
	if wait > 0 {
		time.Sleep(wait)
	}
	resp, pr := do("after-expiry")
	probes = append(probes, pr)
	if resp.Err != nil {
		r.NotJudged("probe-exchange-failed")
		return
	}
	label(resp, pr)
	if time.Duration(resp.Call-store.Ret) > L+slack {
		r.Count("judged_expired_probes", 1)
		r.Nontrivial(c.Kind, c.Ignore, c.Force, c.Def, string(mode))
		if !pr.Contact {
			src := "default"
			switch {
			case c.Force:
				src = "forced-default"
			case ref.Kind == "relative" && L != c.Def:
				src = "max-age"
			case c.ExpIn > 0:
				src = "expires"
			case ref.Kind == "expired" || ref.Kind == "absolute":
				src = "unparseable-or-past-expires"
			}
			viol("stale-entry-reused:"+src, fmt.Sprintf("the lifetime (%v, from %s) was certainly over %v before the probe was sent, yet it was answered without contacting the origin", L, src, time.Duration(resp.Call-store.Ret)-L-slack))
		}
	} else {
		r.NotJudged("expired-probe-straddles-boundary")
	}
}

func c03Run(b core.Batch, r *core.Recorder) {
	if b.Str("mode", "proxy") == "func" {
		c03RunFunc(b, r)
	} else {
		c03RunProxy(b, r)
	}
}

func c03Plan(tier string, seed int64) []core.Batch {
	nf, np := 20000, 144
	if tier == "thorough" {
		nf, np = 2000000, 4000
	}
	bs := []core.Batch{{Name: "func", TimeoutS: 1200, Args: map[string]any{"mode": "func", "n": nf}}}
	for _, be := range []string{"memory", "file"} {
		for _, tr := range []string{"plain", "tunnel"} {
			bs = append(bs, core.Batch{Name: "proxy-" + be + "-" + tr, TimeoutS: 1800, Args: map[string]any{"mode": "proxy", "backend": be, "transport": tr, "n": np, "parallel": 48}})
		}
	}
	return bs
}

func init() {
	core.Register(&core.Monitor{
		ID:    "C03",
		Level: "exploration",
		Rule: "function level: header sets of C04's generator plus max-age=N with N in 12 values up to 2^63-1 in 5 decorations x force x default in {40ms,1s,1h}: GetExpiresOrDefault is called between two clock reads and must land in [t0+L, t1+L] (or equal the Expires date, or be <= now for an unparseable Expires). " +
			"proxy level: resources of 14 kinds (max-age=2 with the origin's Date 10 min ahead / 30 s behind, max-age=1 / MAX-AGE=1 / split lines max-age=2 / Expires +2 s,+3 s / none / garbage or '0' Expires / max-age with past Expires / no-store / max-age=0) under the 4 ignore x force policies (switched at run time) with defaults 150/300 ms, one sequential client each: store, probe at 0.25 L, probe after L; " +
			"oracles: no-contact <=> HIT label; a probe sent after store.return+L(+1 s for date resolution) must contact the origin; Age and ttl inside the interval implied by the recorded windows. Probes whose windows straddle a boundary are not judged. Non-trivial = distinct (kind, policy, transport) with a judged after-expiry probe.",
		Assumptions: []string{"the implementation reads the wall clock itself; verdicts are issued only when the recorded send/receive windows make them certain under any delay",
			"duplicate/invalid max-age forms have no lifetime fixed by the statement", "revalidating early (before the lifetime is over) is not a C03 violation"},
		Plan:     c03Plan,
		Run:      c03Run,
		Parallel: 5,
		Floors:   map[string]map[string]int64{"quick": {"judged_expired_probes": 100, "judged_fresh_probes": 100, "ttl_checked": 50}, "thorough": {"judged_expired_probes": 1000, "judged_fresh_probes": 1000, "ttl_checked": 500}},
	})
}
