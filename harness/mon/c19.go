package mon

// C19 — components follow the latest setting; unsubscribing is safe in any order.
//
// (1) set-model monitor on ConfigProp.OnChange (the public face of the event list): all
// sequences over {subscribe, unsubscribe_i, fire} up to a depth plus random longer ones;
// after every fire exactly the model's listener set must have been called once each.
// (2) latest-value monitor: bursts of back-to-back changes on live caches, janitor and
// logger; at quiescence every component must show the last value.
// (3) shutdown monitor: several caches on one config destroyed in every order; later
// changes must reach exactly the survivors.
// (4) policy switches toggled between requests through the real proxy, once with Overwrite on the usual rig proxy and once through the API entry point on a proxy built from a default configuration whose policy settings nobody touched before NewProxy.

import (
	"context"
	"fmt"
	"log/slog"
	"net/http"
	"os"
	"path/filepath"
	"runtime"
	"sort"
	"strings"
	"sync"
	"sync/atomic"
	"time"

	"reservoir/config"
	"reservoir/logging"
	"reservoir/utils/bytesize"
	"reservoir/utils/duration"
	"reservoir/utils/verifhook"
	"verifharness/core"
	"verifharness/rig"
)

// ---- (1) set model -----------------------------------------------------------------------

type c19listener struct {
	calls atomic.Int64
	unsub func()
}

func c19seqString(ops []string) string { return strings.Join(ops, ",") }

// c19runSet executes one op sequence; ops: "S" subscribe a new listener, "U<i>" unsubscribe listener i, "F" fire.
func c19runSet(r *core.Recorder, id string, ops []string) {
	r.Eval(1)
	cs := map[string]any{"id": id, "ops": c19seqString(ops)}
	var ls []*c19listener
	member := map[int]bool{}
	expect := map[int]int64{}
	prop := config.NewConfigProp(0)
	fires := 0
	settle := func() bool {
		// wait (bounded) until every expected call has arrived, then a grace period for stragglers
		ok := waitFor(func() bool {
			for i, l := range ls {
				if l.calls.Load() < expect[i] {
					return false
				}
			}
			return true
		}, 2*time.Second)
		for k := 0; k < 4; k++ {
			runtime.Gosched()
		}
		time.Sleep(150 * time.Microsecond)
		return ok
	}
	var panicked any
	func() {
		defer func() { panicked = recover() }()
		for _, op := range ops {
			switch {
			case op == "S":
				l := &c19listener{}
				l.unsub = prop.OnChange(func(int) { l.calls.Add(1) })
				ls = append(ls, l)
				member[len(ls)-1] = true
			case op == "F":
				fires++
				prop.Overwrite(fires)
				for i := range ls {
					if member[i] {
						expect[i]++
					}
				}
				settle()
			case strings.HasPrefix(op, "U"):
				var i int
				fmt.Sscanf(op, "U%d", &i)
				if i < len(ls) {
					ls[i].unsub()
					member[i] = false
				}
			}
		}
	}()
	if panicked != nil {
		r.Violation("C19", "C19:unsubscribe-panics", fmt.Sprintf("sequence %s panicked: %v", c19seqString(ops), panicked), cs, nil)
		return
	}
	if fires > 0 && len(ls) > 1 {
		r.Nontrivial(c19seqString(ops))
	}
	settle()
	time.Sleep(300 * time.Microsecond)
	for i, l := range ls {
		got := l.calls.Load()
		switch {
		case got < expect[i]:
			r.Violation("C19", "C19:listener-detached-by-another-unsubscribe", fmt.Sprintf("sequence %s: listener %d was called %d times, the model says %d (it lost notifications although it never unsubscribed in time)", c19seqString(ops), i, got, expect[i]), cs,
				map[string]any{"listener": i, "calls": got, "expected": expect[i]})
			return
		case got > expect[i]:
			r.Violation("C19", "C19:unsubscribed-listener-still-called", fmt.Sprintf("sequence %s: listener %d was called %d times, the model says %d (it was notified after unsubscribing)", c19seqString(ops), i, got, expect[i]), cs,
				map[string]any{"listener": i, "calls": got, "expected": expect[i]})
			return
		}
	}
	r.Count("set_sequences_matching_model", 1)
}

func c19RunSet(b core.Batch, r *core.Recorder) {
	depth := b.Int("depth", 5)
	part, parts := b.Int("pidx", 0), b.Int("parts", 1)
	idx := 0
	// alphabet depends on how many listeners exist so far; enumerate with a counter
	var rec func(ops []string, listeners int)
	rec = func(ops []string, listeners int) {
		if len(ops) > 0 {
			idx++
			if idx%parts == part {
				id := fmt.Sprintf("s%d", idx)
				if r.Only() == "" || r.Only() == id {
					if idx%2000 == 0 {
						r.Case(id, c19seqString(ops))
					}
					c19runSet(r, id, append([]string(nil), ops...))
				}
			}
		}
		if len(ops) == depth {
			return
		}
		if listeners < 4 {
			rec(append(ops, "S"), listeners+1)
		}
		rec(append(ops, "F"), listeners)
		for i := 0; i < listeners; i++ {
			rec(append(ops, fmt.Sprintf("U%d", i)), listeners)
		}
	}
	rec(nil, 0)
	rng := b.Rand("c19-set")
	for k := 0; k < b.Int("random", 200); k++ {
		var ops []string
		listeners := 0
		for len(ops) < 8+rng.IntN(23) {
			switch x := rng.IntN(10); {
			case x < 3 && listeners < 8:
				ops = append(ops, "S")
				listeners++
			case x < 6:
				ops = append(ops, "F")
			case listeners > 0:
				ops = append(ops, fmt.Sprintf("U%d", rng.IntN(listeners)))
			}
		}
		id := fmt.Sprintf("r%d", k)
		if r.Case(id, c19seqString(ops)) {
			c19runSet(r, id, ops)
		}
	}
	r.Sample(map[string]any{"part": "set-model", "depth": depth, "example": "S,S,S,U0,U1,F = three listeners, unsubscribe the first then the second, fire: only the third must be called"})
}

// ---- (2) latest value ------------------------------------------------------------------------

func c19RunLatest(b core.Batch, r *core.Recorder) {
	rig.QuietLogs()
	wd, _ := os.Getwd()
	bursts := b.Int("bursts", 60)
	rng := b.Rand("c19-latest")
	var applied atomic.Int64
	var lastApplied atomic.Int64
	verifhook.Set("janitor.interval.applied", func(arg any) {
		lastApplied.Store(int64(arg.(time.Duration)))
		applied.Add(1)
	})
	busyOnly := b.Int("busy_only", 0) == 1
	for i := 0; i < bursts; i++ {
		backend := []string{"memory", "file"}[i%2]
		if busyOnly {
			backend = "memory"
		}
		id := fmt.Sprintf("l%d", i)
		n := 2 + rng.IntN(9)
		if !r.Case(id, map[string]any{"backend": backend, "changes": n}) {
			continue
		}
		r.Eval(1)
		ctx, cancel := context.WithCancel(context.Background())
		c, cfg := rig.NewCache(ctx, rig.CacheOpts{Backend: backend, Dir: filepath.Join(wd, "c19cache", id), Max: 1 << 30, Shards: 4, Interval: time.Hour})
		// co-listeners count deliveries, so that quiescence (every fired callback has run) is observable
		var dSize, dBudget, dInterval atomic.Int64
		u1 := cfg.Cache.MaxCacheSize.OnChange(func(bytesize.ByteSize) { dSize.Add(1) })
		u2 := cfg.Cache.Memory.MemoryBudgetPercent.OnChange(func(int) { dBudget.Add(1) })
		u3 := cfg.Cache.CleanupInterval.OnChange(func(duration.Duration) { dInterval.Add(1) })
		applied0 := applied.Load()
		var lastSize int64
		var lastBudget int
		var lastInterval time.Duration
		// every third burst arrives while the janitor is busy: its loop is parked inside a cleanup cycle (hook
		// janitor.scan.done) until all changes of the burst have been announced
		parkedVariant := i%3 == 0 && !busyOnly
		extra := int64(0)
		release := make(chan struct{})
		if parkedVariant {
			parked := make(chan struct{}, 1)
			var armed atomic.Bool
			verifhook.Set("janitor.scan.done", func(any) {
				if armed.CompareAndSwap(true, false) {
					parked <- struct{}{}
					<-release
				}
			})
			armed.Store(true)
			cfg.Cache.CleanupInterval.Overwrite(duration.Duration(time.Millisecond)) // the ticker now fires, a cycle starts
			extra = 1
			select {
			case <-parked:
				r.Count("bursts_while_janitor_busy", 1)
			case <-time.After(3 * time.Second):
				armed.Store(false)
				parkedVariant = false
				close(release)
			}
		}
		// every third burst (the others) arrives while the cache itself is busy: stores and deletes keep taking the
		// cache's own locks, so that a listener can be held up between looking at the setting and applying it
		busyVariant := i%3 == 1 || busyOnly
		stopTraffic := make(chan struct{})
		var traffic sync.WaitGroup
		if busyVariant {
			for g := 0; g < 6; g++ {
				traffic.Add(1)
				go func() {
					defer traffic.Done()
					for k := 0; ; k++ {
						select {
						case <-stopTraffic:
							return
						default:
						}
						key := rig.Key(g*1000 + k%50)
						if e, err := c.Cache(key, strings.NewReader("0123456789abcdef"), time.Now().Add(time.Hour), rig.Obj{K: g, V: k}); err == nil && e != nil && e.Data != nil {
							e.Data.Close()
						}
						if k%2 == 1 {
							c.Delete(key)
						}
					}
				}()
			}
			r.Count("bursts_while_cache_busy", 1)
		}
		// the remaining third: the cache's first size-limit notification of the burst is held between looking up the
		// current limit and applying it (hook cache.maxsize.read, where the tree has it) until all changes have been
		// announced - what a loaded machine does to that goroutine now and then. The limit it then applies is an
		// old one; the notifications of the later changes must still have the last word.
		heldVariant := i%3 == 2 && !busyOnly
		heldRelease := make(chan struct{})
		if heldVariant {
			var first atomic.Bool
			first.Store(true)
			verifhook.Set("cache.maxsize.read", func(any) {
				if first.CompareAndSwap(true, false) {
					r.Count("bursts_with_a_held_limit_listener", 1)
					select {
					case <-heldRelease:
					case <-time.After(3 * time.Second):
					}
				}
			})
		}
		for k := 0; k < n; k++ {
			if busyVariant && k > 0 {
				time.Sleep(time.Duration(20+rng.IntN(200)) * time.Microsecond)
			}
			lastSize = int64(1000 + rng.IntN(1_000_000))
			lastBudget = 1 + rng.IntN(99)
			lastInterval = time.Duration(10+rng.IntN(1000)) * time.Minute
			cfg.Cache.MaxCacheSize.Overwrite(bytesize.ByteSize(lastSize))
			cfg.Cache.Memory.MemoryBudgetPercent.Overwrite(lastBudget)
			cfg.Cache.CleanupInterval.Overwrite(duration.Duration(lastInterval))
		}
		// quiescence of the notifications is observed (every co-listener has run n times); the components were
		// notified together with the co-listeners and get a bounded grace period to act on what they were told.
		// How many times the janitor re-arms its ticker is its own business (it may coalesce signals): only the value
		// it ends on is judged. Demanding n applications, as an earlier version did, left a janitor that drops the
		// newest change "not judged".
		quiet := waitFor(func() bool {
			return dSize.Load() == int64(n) && dBudget.Load() == int64(n) && dInterval.Load() == int64(n)+extra
		}, 10*time.Second)
		if heldVariant {
			time.Sleep(20 * time.Millisecond) // the notifications that are not held have run (or queue behind the held one)
			close(heldRelease)
		}
		close(stopTraffic)
		traffic.Wait()
		_ = applied0
		if parkedVariant {
			close(release)
		}
		verifhook.Set("janitor.scan.done", nil)
		verifhook.Set("cache.maxsize.read", nil)
		var wantCap int64 = -1
		if quiet && backend == "memory" {
			// memoryCap = total * percent / 100: the reference is a second cache constructed with the final percent
			c2, _ := rig.NewCache(ctx, rig.CacheOpts{Backend: "memory", Max: 1 << 30, Shards: 1, Interval: time.Hour, Budget: lastBudget})
			_, wantCap = c2.VerifLimits()
			c2.Destroy()
		}
		if quiet {
			// bounded grace for every component that was told (the budget listener too: it needs the cache's own
			// lock, which the traffic of the busy variant was holding - reading the cap 2 ms after the notifications
			// were quiescent was a false alarm on a loaded machine)
			waitFor(func() bool {
				gs, gc := c.VerifLimits()
				return gs == lastSize && time.Duration(lastApplied.Load()) == lastInterval && (wantCap < 0 || gc == wantCap)
			}, 5*time.Second)
			time.Sleep(2 * time.Millisecond)
		}
		cs := map[string]any{"id": id, "backend": backend, "changes": n, "gomaxprocs": runtime.GOMAXPROCS(0)}
		if !quiet {
			r.NotJudged("quiescence-not-reached")
		} else {
			r.Count("bursts_judged", 1)
			r.Nontrivial("latest", backend, n, i, runtime.GOMAXPROCS(0))
			gotSize, gotCap := c.VerifLimits()
			if gotSize != lastSize {
				r.Violation("C19", "C19:stale-final-value:max_cache_size:"+backend, fmt.Sprintf("after %d back-to-back changes the cache enforces max size %d, the last accepted value is %d", n, gotSize, lastSize), cs, nil)
			}
			if got := time.Duration(lastApplied.Load()); got != lastInterval {
				r.Violation("C19", "C19:stale-final-value:cleanup_interval:"+backend, fmt.Sprintf("after %d back-to-back changes the janitor ticks every %v, the last accepted value is %v", n, got, lastInterval), cs, nil)
			}
			if backend == "memory" {
				if gotCap != wantCap {
					r.Violation("C19", "C19:stale-final-value:memory_budget_percent", fmt.Sprintf("after %d back-to-back changes the memory cap is %d, the last accepted percentage (%d) gives %d", n, gotCap, lastBudget, wantCap), cs, nil)
				}
			}
		}
		u1()
		u2()
		u3()
		c.Destroy()
		cancel()
		// a janitor that still had a signal pending when it was stopped may act on it once more: let that settle
		// before the next burst starts, so that it cannot be mistaken for the next cache's janitor
		for prev, stable := applied.Load(), 0; stable < 3; {
			time.Sleep(time.Millisecond)
			if cur := applied.Load(); cur == prev {
				stable++
			} else {
				prev, stable = cur, 0
			}
		}
	}
	if busyOnly {
		r.Sample(map[string]any{"part": "latest-value", "variant": "memory cache kept busy by six storing/deleting goroutines during every burst", "bursts": bursts})
		return
	}
	// log level on the real logging package (process-global, initialised once)
	cfg := config.NewDefault()
	cfg.Logging.File.Overwrite("")
	cfg.Logging.ToStdout.Overwrite(false)
	logging.Init(cfg)
	levels := []slog.Level{slog.LevelDebug, slog.LevelInfo, slog.LevelWarn, slog.LevelError}
	for i := 0; i < bursts; i++ {
		var d atomic.Int64
		u := cfg.Logging.Level.OnChange(func(slog.Level) { d.Add(1) })
		n := 2 + rng.IntN(9)
		var last slog.Level
		for k := 0; k < n; k++ {
			last = levels[rng.IntN(len(levels))]
			cfg.Logging.Level.Overwrite(last)
		}
		quiet := waitFor(func() bool { return d.Load() == int64(n) }, 10*time.Second)
		time.Sleep(time.Millisecond)
		u()
		r.Eval(1)
		if !quiet {
			r.NotJudged("quiescence-not-reached")
			continue
		}
		r.Count("bursts_judged", 1)
		// bounded grace: the logger's own listener was notified together with the co-listener, its goroutine may
		// not have had the CPU yet (judging 1 ms after the co-listener was a false alarm at load 50, DESIGN 6.4)
		waitFor(func() bool {
			return slog.Default().Enabled(context.Background(), last) && !slog.Default().Enabled(context.Background(), last-1)
		}, 5*time.Second)
		enabledAtLast := slog.Default().Enabled(context.Background(), last)
		enabledBelow := slog.Default().Enabled(context.Background(), last-1)
		if !enabledAtLast || enabledBelow {
			r.Violation("C19", "C19:stale-final-value:log_level", fmt.Sprintf("after %d back-to-back changes ending at %v the logger has another level (enabled(%v)=%v enabled(%v)=%v)", n, last, last, enabledAtLast, last-1, enabledBelow),
				map[string]any{"id": fmt.Sprintf("lv%d", i), "changes": n, "gomaxprocs": runtime.GOMAXPROCS(0)}, nil)
		}
	}
	rig.QuietLogs()
	r.Sample(map[string]any{"part": "latest-value", "bursts": bursts, "gomaxprocs": runtime.GOMAXPROCS(0), "what": "2-10 back-to-back Overwrite calls on max_cache_size / memory_budget_percent / cleanup_interval / log level, quiescence observed through co-listeners and the janitor.interval.applied hook"})
}

// ---- (3) shutdown orders ------------------------------------------------------------------------

func c19RunShutdown(b core.Batch, r *core.Recorder) {
	rig.QuietLogs()
	wd, _ := os.Getwd()
	perms := [][]int{{0, 1, 2}, {0, 2, 1}, {1, 0, 2}, {1, 2, 0}, {2, 0, 1}, {2, 1, 0}}
	n := 0
	for rep := 0; rep < b.Int("reps", 3); rep++ {
		for _, perm := range perms {
			for stopAfter := 1; stopAfter <= 3; stopAfter++ {
				n++
				id := fmt.Sprintf("d%d", n)
				// how a component is shut down: Destroy on a live context, or (as the program itself does at exit) the
				// context is cancelled first, the janitor loop ends, and Destroy follows
				how := []string{"destroy", "cancel-then-destroy"}[n%2]
				if !r.Case(id, map[string]any{"destroy_order": perm[:stopAfter], "how": how}) {
					continue
				}
				r.Eval(1)
				cfg := config.NewDefault()
				caches := make([]rig.VCache, 3)
				cancels := make([]context.CancelFunc, 3)
				for i := range caches {
					be := []string{"memory", "file", "memory"}[i]
					var ctx context.Context
					ctx, cancels[i] = context.WithCancel(context.Background())
					caches[i], _ = rig.NewCache(ctx, rig.CacheOpts{Backend: be, Dir: filepath.Join(wd, "c19cache", fmt.Sprintf("%s-%d", id, i)), Max: 1 << 30, Shards: 2, Interval: time.Hour, Cfg: cfg})
				}
				destroyed := map[int]bool{}
				cs := map[string]any{"id": id, "destroy_order": perm[:stopAfter], "how": how}
				shut := func(i int) {
					if how == "cancel-then-destroy" {
						cancels[i]()
						time.Sleep(3 * time.Millisecond) // the janitor loop notices the cancellation and ends
					}
					caches[i].Destroy()
					destroyed[i] = true
				}
				var panicked any
				func() {
					defer func() { panicked = recover() }()
					for _, i := range perm[:stopAfter] {
						shut(i)
					}
				}()
				if panicked != nil {
					r.Violation("C19", "C19:shutdown-panics", fmt.Sprintf("destroying caches in order %v panicked: %v", perm[:stopAfter], panicked), cs, nil)
					for _, c := range cancels {
						c()
					}
					continue
				}
				var d, dI atomic.Int64
				u := cfg.Cache.MaxCacheSize.OnChange(func(bytesize.ByteSize) { d.Add(1) })
				uI := cfg.Cache.CleanupInterval.OnChange(func(duration.Duration) { dI.Add(1) })
				newSize := int64(4242 + n)
				cfg.Cache.MaxCacheSize.Overwrite(bytesize.ByteSize(newSize))
				// later changes of the interval too: a shut-down janitor must not be told (a listener that is still
				// subscribed shows as a goroutine parked in the janitor's code once nobody drains its signal any more)
				for k := 0; k < 3; k++ {
					cfg.Cache.CleanupInterval.Overwrite(duration.Duration(time.Duration(70+n+k) * time.Minute))
				}
				waitFor(func() bool { return d.Load() == 1 && dI.Load() == 3 }, 5*time.Second)
				// bounded grace for the survivors: they were notified together with the co-listener, their goroutines
				// may not have had the CPU yet (3 ms was a false alarm at load 40, DESIGN 6.4)
				waitFor(func() bool {
					for i, c := range caches {
						if got, _ := c.VerifLimits(); !destroyed[i] && got != newSize {
							return false
						}
					}
					return true
				}, 5*time.Second)
				time.Sleep(3 * time.Millisecond)
				u()
				uI()
				r.Count("shutdown_orders_checked", 1)
				r.Nontrivial("shutdown", fmt.Sprint(perm[:stopAfter]), how, rep)
				for i, c := range caches {
					got, _ := c.VerifLimits()
					if destroyed[i] && got == newSize {
						r.Violation("C19", "C19:destroyed-component-notified", fmt.Sprintf("cache %d was destroyed before the change, yet it applied the new limit", i), cs, map[string]any{"cache": i})
					}
					if !destroyed[i] && got != newSize {
						r.Violation("C19", "C19:survivor-lost-notification", fmt.Sprintf("caches %v were destroyed; surviving cache %d did not receive the later limit change (has %d, want %d)", perm[:stopAfter], i, got, newSize), cs, map[string]any{"cache": i})
					}
				}
				for i := range caches {
					if !destroyed[i] {
						shut(i)
					}
				}
				for _, c := range cancels {
					c()
				}
				// everything is shut down: two more changes; afterwards no goroutine may sit in the cache package
				for k := 0; k < 2; k++ {
					cfg.Cache.CleanupInterval.Overwrite(duration.Duration(time.Duration(500+n+k) * time.Minute))
					cfg.Cache.MaxCacheSize.Overwrite(bytesize.ByteSize(newSize + int64(k) + 1))
				}
				var parked []string
				for try := 0; try < 400; try++ {
					time.Sleep(5 * time.Millisecond)
					buf := make([]byte, 1<<20)
					buf = buf[:runtime.Stack(buf, true)]
					parked = parked[:0]
					for _, g := range strings.Split(string(buf), "\n\n") {
						if strings.Contains(g, "reservoir/cache.") {
							parked = append(parked, core.Trunc(g, 600))
						}
					}
					if len(parked) == 0 {
						break
					}
				}
				if len(parked) > 0 {
					r.Violation("C19", "C19:shut-down-component-still-notified:"+how, fmt.Sprintf("all caches were shut down (%s); after two later changes %d goroutines still sit in the cache package (a listener of a dead component was run)", how, len(parked)), cs, map[string]any{"goroutines": parked})
				}
			}
		}
	}
	r.Sample(map[string]any{"part": "shutdown", "what": "three caches (memory, file, memory) on one config; every prefix of every destruction order, by Destroy or by context-cancel-then-Destroy; then a limit change must reach exactly the survivors, and once everything is shut down later changes must leave no goroutine in the cache package"})
}

// ---- (4) policy switches through the proxy -------------------------------------------------------

func c19RunPolicy(b core.Batch, r *core.Recorder) {
	rig.QuietLogs()
	o := rig.StartOrigin(func(w http.ResponseWriter, q *http.Request, rec *rig.OriginReq) {
		rec.SetNote(q.URL.Path)
		if strings.HasPrefix(q.URL.Path, "/r416") && q.Header.Get("Range") != "" {
			w.Header().Set("Content-Range", "bytes */200")
			w.WriteHeader(416)
			return
		}
		rig.ServeBody(w, 4, 1, 200, map[string]string{"Cache-Control": "no-store"})
	})
	defer o.Close()
	// via = "overwrite": the rig's usual proxy, switches flipped with Overwrite. via = "api-pristine": the proxy is
	// built from a default configuration whose policy and retry settings nobody has touched or subscribed to before
	// NewProxy (as in production), and the switches are flipped through the API entry point.
	via := b.Str("via", "overwrite")
	var p *rig.ProxyRig
	if via == "api-pristine" {
		wd, _ := os.Getwd()
		os.MkdirAll("var", 0o755)
		cfg := config.NewDefault()
		cfg.Cache.File.Dir.Overwrite(filepath.Join(wd, "c19polcache"))
		cfg.Cache.Type.Overwrite(config.CacheType(b.Str("backend", "memory")))
		var err error
		if p, err = rig.StartProxyWith(cfg); err != nil {
			r.Inconclusive("cannot start a proxy under the default configuration: " + err.Error())
			return
		}
	} else {
		p = rig.StartProxy(rig.ProxyOpts{Backend: b.Str("backend", "memory")})
	}
	defer p.Close()
	rng := b.Rand("c19-policy")
	for i := 0; i < b.Int("n", 60); i++ {
		r.Eval(1)
		ignore := rng.IntN(2) == 0
		retry := rng.IntN(2) == 0
		retry416 := rng.IntN(2) == 0
		if via == "api-pristine" {
			st, err := config.UpdatePartialFromConfig(p.Cfg, map[string]any{"proxy": map[string]any{"retry_on_invalid_range": retry, "retry_on_range_416": retry416, "cache_policy": map[string]any{"ignore_cache_control": ignore}}})
			if err != nil || st == config.UpdateStatusFailed {
				r.NotJudged("policy-update-refused")
				continue
			}
		} else {
			p.Cfg.Proxy.CachePolicy.IgnoreCacheControl.Overwrite(ignore)
			p.Cfg.Proxy.RetryOnInvalidRange.Overwrite(retry)
			p.Cfg.Proxy.RetryOnRange416.Overwrite(retry416)
		}
		id := fmt.Sprintf("p%d-%s", i, via)
		cs := map[string]any{"id": id, "ignore_cache_control": ignore, "retry_on_invalid_range": retry, "changed_via": via}
		// ignore switch: a no-store answer is reused iff directives are ignored
		path := fmt.Sprintf("/pol%d", i)
		rig.Do(p, rig.Plain, o.Addr, rig.Req{Target: path})
		seq := o.LastSeq()
		r2 := rig.Do(p, rig.Plain, o.Addr, rig.Req{Target: path})
		contacted := false
		for _, g := range o.Since(seq) {
			if g.Note == path {
				contacted = true
			}
		}
		r.Count("policy_switch_checks", 1)
		r.Nontrivial("policy", ignore, retry, i)
		if r2.Err == nil && contacted == ignore {
			r.Violation("C19", "C19:policy-switch-not-followed:ignore_cache_control", fmt.Sprintf("ignore_cache_control was set to %v before the request, yet the no-store answer was reused=%v", ignore, !contacted), cs, nil)
		}
		// retry_on_range_416: the origin refuses the Range with 416; the proxy retries without Range only when told to
		r5 := rig.Do(p, rig.Plain, o.Addr, rig.Req{Target: fmt.Sprintf("/r416-%d", i), Header: [][2]string{{"Range", "bytes=5-9"}}})
		if r5.Err == nil && ((retry416 && r5.Status != 200) || (!retry416 && r5.Status != 416)) {
			cs["retry_on_range_416"] = retry416
			r.Violation("C19", "C19:policy-switch-not-followed:retry_on_range_416", fmt.Sprintf("retry_on_range_416 was set to %v before the request; the origin's 416 was answered to the client with %d", retry416, r5.Status), cs, nil)
		}
		// retry switch: an unsatisfiable range on a stored entry gives 416, or the full 200 when retrying
		if ignore {
			r3 := rig.Do(p, rig.Plain, o.Addr, rig.Req{Target: path, Header: [][2]string{{"Range", "bytes=900-"}}})
			if r3.Err == nil && ((retry && r3.Status != 200) || (!retry && r3.Status != 416)) {
				r.Violation("C19", "C19:policy-switch-not-followed:retry_on_invalid_range", fmt.Sprintf("retry_on_invalid_range was set to %v before the request, the unsatisfiable Range was answered with %d", retry, r3.Status), cs, nil)
			}
		}
	}
	r.Sample(map[string]any{"part": "policy", "what": "ignore_cache_control and retry_on_invalid_range switched at random between requests; the very next request must follow the new value"})
}

// ---- (5) first use of a setting's event from several goroutines at once ---------------------------

type c19prop struct {
	name      string
	subscribe func(cfg *config.Config, got *atomic.Int64, last *atomic.Int64) func()
	change    func(cfg *config.Config, v int64)
}

var c19props = []c19prop{
	{"proxy.cache_policy.ignore_cache_control",
		func(cfg *config.Config, got, last *atomic.Int64) func() {
			return cfg.Proxy.CachePolicy.IgnoreCacheControl.OnChange(func(v bool) { last.Store(map[bool]int64{false: 0, true: 1}[v]); got.Add(1) })
		},
		func(cfg *config.Config, v int64) { cfg.Proxy.CachePolicy.IgnoreCacheControl.Overwrite(v%2 == 1) }},
	{"proxy.cache_policy.default_max_age",
		func(cfg *config.Config, got, last *atomic.Int64) func() {
			return cfg.Proxy.CachePolicy.DefaultMaxAge.OnChange(func(v duration.Duration) { last.Store(int64(v)); got.Add(1) })
		},
		func(cfg *config.Config, v int64) { cfg.Proxy.CachePolicy.DefaultMaxAge.Overwrite(duration.Duration(v)) }},
	{"cache.max_cache_size",
		func(cfg *config.Config, got, last *atomic.Int64) func() {
			return cfg.Cache.MaxCacheSize.OnChange(func(v bytesize.ByteSize) { last.Store(int64(v)); got.Add(1) })
		},
		func(cfg *config.Config, v int64) { cfg.Cache.MaxCacheSize.Overwrite(bytesize.ByteSize(v)) }},
	{"cache.lock_shards",
		func(cfg *config.Config, got, last *atomic.Int64) func() {
			return cfg.Cache.LockShards.OnChange(func(v int) { last.Store(int64(v)); got.Add(1) })
		},
		func(cfg *config.Config, v int64) { cfg.Cache.LockShards.Overwrite(int(v)) }},
}

// c19RunFirstUse: on a configuration nobody has touched yet, the first subscriptions and the first changes of one
// setting are released at the same instant from separate goroutines (a dashboard update arriving while a component
// is still starting up). Afterwards a further change must reach every listener subscribed in the scramble.
func c19RunFirstUse(b core.Batch, r *core.Recorder) {
	rounds := b.Int("rounds", 150)
	for n := 0; n < rounds; n++ {
		for pi, pr := range c19props {
			id := fmt.Sprintf("u%d-%d", n, pi)
			shape := n % 4 // 0: sub+change+change, 1: sub+sub+change, 2: change+change+change, 3: sub+sub+change+change
			if !r.Case(id, map[string]any{"setting": pr.name, "shape": shape}) {
				continue
			}
			r.Eval(1)
			cfg := config.NewDefault()
			const L = 2
			var got, last [L]atomic.Int64
			unsub := make([]func(), L)
			start := make(chan struct{})
			var wg sync.WaitGroup
			run := func(f func()) {
				wg.Add(1)
				go func() {
					defer wg.Done()
					<-start
					f()
				}()
			}
			nsub := []int{1, 2, 0, 2}[shape]
			nchg := []int{2, 1, 3, 2}[shape]
			for i := 0; i < nsub; i++ {
				run(func() { unsub[i] = pr.subscribe(cfg, &got[i], &last[i]) })
			}
			for i := 0; i < nchg; i++ {
				run(func() { pr.change(cfg, int64(10+i)) })
			}
			var panicked any
			func() {
				defer func() { panicked = recover() }()
				close(start)
				wg.Wait()
			}()
			cs := map[string]any{"id": id, "setting": pr.name, "subscribers_in_the_scramble": nsub, "changes_in_the_scramble": nchg}
			if panicked != nil {
				r.Violation("C19", "C19:first-use:panic", fmt.Sprint(panicked), cs, nil)
				continue
			}
			for i := nsub; i < L; i++ {
				unsub[i] = pr.subscribe(cfg, &got[i], &last[i])
			}
			// the scramble's own notifications may still be in flight: wait until the counts are stable
			stable := func() [L]int64 { return [L]int64{got[0].Load(), got[1].Load()} }
			prev := stable()
			for k := 0; k < 200; k++ {
				time.Sleep(2 * time.Millisecond)
				cur := stable()
				if cur == prev && k > 2 {
					break
				}
				prev = cur
			}
			final := int64(1000 + n)
			if pr.name == "proxy.cache_policy.ignore_cache_control" {
				final = 1 - last[0].Load() // a bool: flip whatever the first listener saw last
			}
			before := stable()
			pr.change(cfg, final)
			ok := waitFor(func() bool { return got[0].Load() > before[0] && got[1].Load() > before[1] }, 5*time.Second)
			r.Count("first_use_scrambles", 1)
			r.Nontrivial("firstuse", pr.name, shape, n)
			if !ok {
				r.Violation("C19", "C19:first-use:listener-lost", fmt.Sprintf("after %d subscriptions and %d changes of %s released at once, a later change did not reach every listener (calls before %v, after %v)", nsub, nchg, pr.name, before, stable()), cs, nil)
			} else {
				time.Sleep(2 * time.Millisecond)
				for i := 0; i < L; i++ {
					want := final
					if pr.name == "proxy.cache_policy.ignore_cache_control" {
						want = final % 2
					}
					if last[i].Load() != want {
						r.Violation("C19", "C19:first-use:stale-final-value", fmt.Sprintf("listener %d of %s ended on %d, the last change was %d", i, pr.name, last[i].Load(), want), cs, nil)
					}
				}
			}
			for _, u := range unsub {
				if u != nil {
					u()
				}
			}
		}
	}
	r.Sample(map[string]any{"part": "firstuse", "what": "fresh configuration; first subscriptions and first changes of one never-used setting released at the same instant from 3-4 goroutines; then one more change must reach both listeners with its value"})
}

// ---- (6) a listener is shut down while a notification round is under way --------------------------

// c19RunUnsubDuringFire: K listeners on one setting; one goroutine changes the setting while others unsubscribe some
// of the earliest listeners. Every listener that is not being shut down must be called exactly once for the change;
// a listener shut down in the scramble may be called once or not at all.
func c19RunUnsubDuringFire(b core.Batch, r *core.Recorder) {
	rounds := b.Int("rounds", 300)
	wait, misses := 3*time.Second, 0 // bounded cost on a broken tree: after 5 misses the waits shrink
	for n := 0; n < rounds; n++ {
		id := fmt.Sprintf("f%d", n)
		K := []int{3, 8, 64, 512}[n%4]
		nun := 1 + n%3
		if !r.Case(id, map[string]any{"listeners": K, "unsubscribed_during_the_change": nun}) {
			continue
		}
		r.Eval(1)
		cfg := config.NewDefault()
		calls := make([]atomic.Int64, K)
		// notifications of the second change are told apart by the value they carry: a notification of the first
		// change that reaches a listener late (its goroutine had no CPU; it was in flight when the listener
		// unsubscribed, which is allowed) must not be taken for one of the second change (false alarm at load 40)
		second := make([]atomic.Int64, K)
		secondValue := bytesize.ByteSize(9000 + n)
		unsub := make([]func(), K)
		for i := 0; i < K; i++ {
			unsub[i] = cfg.Cache.MaxCacheSize.OnChange(func(v bytesize.ByteSize) {
				if v == secondValue {
					second[i].Add(1)
				} else {
					calls[i].Add(1)
				}
			})
		}
		victims := map[int]bool{}
		for v := 0; v < nun; v++ {
			victims[(v*7)%min(K-1, 5)] = true // early positions: the tail shifts when they are cut out
		}
		start := make(chan struct{})
		var wg sync.WaitGroup
		wg.Add(1)
		go func() {
			defer wg.Done()
			<-start
			cfg.Cache.MaxCacheSize.Overwrite(bytesize.ByteSize(7000 + n))
		}()
		for v := range victims {
			wg.Add(1)
			go func() {
				defer wg.Done()
				<-start
				for k := 0; k < n%5; k++ {
					runtime.Gosched()
				}
				unsub[v]()
			}()
		}
		close(start)
		wg.Wait()
		survivors := K - len(victims)
		waitFor(func() bool {
			got := 0
			for i := range calls {
				if !victims[i] && calls[i].Load() >= 1 {
					got++
				}
			}
			return got == survivors
		}, wait)
		time.Sleep(2 * time.Millisecond)
		r.Count("changes_with_concurrent_unsubscribe", 1)
		r.Nontrivial("unsub-during-fire", K, nun, n)
		cs := map[string]any{"id": id, "listeners": K, "unsubscribed_during_the_change": len(victims)}
		var missed, twice []int
		for i := range calls {
			c := calls[i].Load()
			if (!victims[i] && c == 0) && len(missed) < 5 {
				missed = append(missed, i)
			}
			if c > 1 && len(twice) < 5 {
				twice = append(twice, i)
			}
		}
		if len(missed) > 0 {
			if misses++; misses >= 5 {
				wait = 50 * time.Millisecond
			}
			r.Violation("C19", "C19:unsubscribe-during-change:live-listener-skipped", fmt.Sprintf("%d listeners, %v shut down while the change was being announced: live listeners %v were never told (called twice: %v)", K, c19keys(victims), missed, twice), cs, nil)
		} else if len(twice) > 0 {
			r.Violation("C19", "C19:unsubscribe-during-change:listener-called-twice", fmt.Sprintf("%d listeners, %v shut down while the change was being announced: listeners %v were told twice", K, c19keys(victims), twice), cs, nil)
		}
		// a second change, after the dust has settled, reaches exactly the survivors
		cfg.Cache.MaxCacheSize.Overwrite(secondValue)
		waitFor(func() bool {
			got := 0
			for i := range second {
				if !victims[i] && second[i].Load() >= 1 {
					got++
				}
			}
			return got == survivors
		}, wait)
		time.Sleep(2 * time.Millisecond)
		for i := range second {
			c := second[i].Load()
			if victims[i] && c != 0 {
				r.Violation("C19", "C19:unsubscribed-listener-still-called", fmt.Sprintf("listener %d was shut down during the previous change and was told about a later one", i), cs, nil)
				break
			}
			if !victims[i] && c != 1 {
				r.Violation("C19", "C19:listener-detached-by-another-unsubscribe", fmt.Sprintf("after %v were shut down, live listener %d was told %d times about the next change", c19keys(victims), i, c), cs, nil)
				break
			}
		}
		for i, u := range unsub {
			if !victims[i] {
				u()
			}
		}
	}
	r.Sample(map[string]any{"part": "unsub-during-fire", "what": "3..512 listeners; 1-3 early listeners unsubscribe from other goroutines at the instant the setting changes"})
}

func c19keys(m map[int]bool) []int {
	var out []int
	for k := range m {
		out = append(out, k)
	}
	sort.Ints(out)
	return out
}

// ---- (7) a configuration loaded from the file, changed through the API ---------------------------

// c19RunLoaded: the configuration is loaded from an existing file (as at a normal start); a recorder listens on
// every setting; the FIRST change of each setting arrives through the API entry point, with values that include the
// zero value of the setting's type. Whenever an accepted update moves the effective value of a setting, its
// listeners must be told the new value.
func c19RunLoaded(b core.Batch, r *core.Recorder) {
	rig.QuietLogs()
	os.MkdirAll("var", 0o755)
	os.Remove("var/config.json")
	if _, err := config.LoadOrDefault("var/config.json"); err != nil { // writes the defaults
		r.Inconclusive("cannot write the default configuration: " + err.Error())
		return
	}
	defFile, _ := os.ReadFile("var/config.json")
	leafType := map[string]any{}
	if flat, _, err := cfgFileValues("var/config.json"); err == nil {
		leafType = flat
	}
	paths := make([]string, 0, len(leafType))
	for k := range leafType {
		paths = append(paths, k)
	}
	sort.Strings(paths)
	for _, path := range paths {
		var cands []any
		switch v := leafType[path].(type) {
		case bool:
			cands = []any{!v}
		case float64:
			cands = []any{0, 1, int(v) + 1}
		case string:
			switch {
			case strings.HasSuffix(path, "level"):
				cands = []any{"INFO", "DEBUG", "WARN", "ERROR"}
			case strings.Contains(path, "size"):
				cands = []any{"0B", "1B", "5M"}
			case strings.Contains(path, "interval") || strings.Contains(path, "age"):
				cands = []any{"0s", "1s", "90m"}
			case path == "cache.type":
				cands = []any{"memory", "file"}
			default:
				cands = []any{"", "x1"}
			}
		}
		for ci, cand := range cands {
			id := fmt.Sprintf("l:%s:%d", path, ci)
			if !r.Case(id, map[string]any{"setting": path, "first_change_to": cand}) {
				continue
			}
			r.Eval(1)
			os.WriteFile("var/config.json", defFile, 0o644)
			cfg, err := config.LoadOrDefault("var/config.json")
			if err != nil {
				r.NotJudged("load-failed")
				continue
			}
			var mu sync.Mutex
			lastEv := map[string]any{}
			nEv := map[string]int{}
			cfgSubscribeAll(cfg, func(p string, v any) {
				mu.Lock()
				lastEv[p] = v
				nEv[p]++
				mu.Unlock()
			})
			before := cfgWalk(cfg)
			st, uerr := config.UpdatePartialFromConfig(cfg, cfgNest(map[string]any{path: cand}))
			if uerr != nil || st == config.UpdateStatusFailed {
				r.Count("loaded_first_changes_refused", 1)
				continue
			}
			after := cfgWalk(cfg)
			if fmt.Sprint(before[path]) == fmt.Sprint(after[path]) {
				r.Count("loaded_first_changes_without_effect", 1)
				continue
			}
			want := fmt.Sprint(after[path])
			ok := waitFor(func() bool {
				mu.Lock()
				defer mu.Unlock()
				return nEv[path] > 0 && fmt.Sprint(lastEv[path]) == want
			}, 3*time.Second)
			r.Count("loaded_first_changes_judged", 1)
			r.Nontrivial("loaded", path, fmt.Sprint(cand))
			if !ok {
				mu.Lock()
				n, last := nEv[path], lastEv[path]
				mu.Unlock()
				cls := "other"
				if want == "0" || want == "false" || want == "" {
					cls = "to-the-zero-value"
				}
				r.Violation("C19", "C19:loaded-config:listener-not-told:"+cls, fmt.Sprintf("configuration loaded from the file; the accepted update %s=%v moved the setting from %v to %v, but its listener was told %d times (last %v)", path, cand, before[path], after[path], n, last),
					map[string]any{"id": id, "setting": path, "first_change_to": cand}, nil)
			}
		}
	}
	r.Sample(map[string]any{"part": "loaded", "settings": len(paths), "what": "per setting a configuration freshly loaded from the default file, a recorder on every setting, then the first API update of that setting (bool flipped; numbers 0/1/n+1; levels; sizes; durations)"})
}

func c19Run(b core.Batch, r *core.Recorder) {
	switch b.Str("part", "set") {
	case "unsub-during-fire":
		c19RunUnsubDuringFire(b, r)
	case "loaded":
		c19RunLoaded(b, r)
	case "firstuse":
		c19RunFirstUse(b, r)
	case "set":
		c19RunSet(b, r)
	case "latest":
		c19RunLatest(b, r)
	case "shutdown":
		c19RunShutdown(b, r)
	case "policy":
		c19RunPolicy(b, r)
	}
}

func c19Plan(tier string, seed int64) []core.Batch {
	depth, rnd, bursts, reps := 6, 200, 40, 2
	if tier == "thorough" {
		depth, rnd, bursts, reps = 8, 10000, 1500, 30
	}
	var bs []core.Batch
	for p := 0; p < 4; p++ {
		bs = append(bs, core.Batch{Name: fmt.Sprintf("set-p%d", p), Race: p == 0, TimeoutS: 1800, Args: map[string]any{"part": "set", "depth": depth, "pidx": p, "parts": 4, "random": rnd}})
	}
	for _, gmp := range []string{"1", "2", "16"} {
		bs = append(bs, core.Batch{Name: "latest-gomaxprocs" + gmp, Race: gmp == "2", TimeoutS: 1800, Env: []string{"GOMAXPROCS=" + gmp}, Args: map[string]any{"part": "latest", "bursts": bursts}})
	}
	for _, gmp := range []string{"2", "16"} {
		bs = append(bs, core.Batch{Name: "latest-busy-gomaxprocs" + gmp, TimeoutS: 1800, Env: []string{"GOMAXPROCS=" + gmp}, Args: map[string]any{"part": "latest", "bursts": bursts * 6, "busy_only": 1}})
	}
	bs = append(bs, core.Batch{Name: "shutdown", Race: true, TimeoutS: 1800, Args: map[string]any{"part": "shutdown", "reps": reps}})
	bs = append(bs, core.Batch{Name: "firstuse", Race: true, TimeoutS: 1800, Args: map[string]any{"part": "firstuse", "rounds": bursts * 3}})
	bs = append(bs, core.Batch{Name: "unsub-during-fire", TimeoutS: 1800, Args: map[string]any{"part": "unsub-during-fire", "rounds": bursts * 10}})
	bs = append(bs, core.Batch{Name: "unsub-during-fire-race", Race: true, TimeoutS: 1800, Args: map[string]any{"part": "unsub-during-fire", "rounds": bursts * 2}})
	bs = append(bs, core.Batch{Name: "loaded", TimeoutS: 1800, Args: map[string]any{"part": "loaded"}})
	bs = append(bs, core.Batch{Name: "policy", TimeoutS: 1800, Args: map[string]any{"part": "policy", "n": bursts}})
	bs = append(bs, core.Batch{Name: "policy-api-pristine", TimeoutS: 1800, Args: map[string]any{"part": "policy", "n": bursts, "via": "api-pristine"}})
	return bs
}

func init() {
	core.Register(&core.Monitor{
		ID:    "C19",
		Level: "exploration",
		Rule: "set model: every sequence up to <depth> over {subscribe (<=4 listeners), unsubscribe_i (also repeated), fire} on ConfigProp.OnChange plus seeded random sequences of 8-30 ops with up to 8 listeners; after every fire exactly the model's listener set must have been called once each, no panic. " +
			"latest value: bursts of 2-10 back-to-back changes of max_cache_size / memory_budget_percent / cleanup_interval on live memory and file caches and of the log level on the real logger, under GOMAXPROCS 1, 2, 16, every third burst while the janitor loop is parked inside a cleanup cycle (hook), every third while six goroutines keep storing and deleting on the cache (its own locks busy), every third with the cache's first size-limit notification held between look-up and apply (hook cache.maxsize.read) until all changes have been announced; at observed quiescence the component state must equal the last value. " +
			"shutdown: three caches on one config, every prefix of every destruction order, shut down by Destroy or by cancelling the context and then Destroy; a change must then reach exactly the survivors, and after everything is shut down further changes must leave no goroutine in the cache package. first use: on a fresh configuration the first subscriptions and first changes of a never-used setting are released at once from 3-4 goroutines, then a further change must reach every listener with its value (race build). unsubscribe during a change: 3..512 listeners, 1-3 early ones shut down from other goroutines at the instant the setting changes; survivors must each be told exactly once, also about the next change. loaded configuration: per setting a configuration loaded from the file, then its first change through the API entry point (including to the zero value of its type) must reach its listener. policy: ignore_cache_control / retry_on_invalid_range / retry_on_range_416 toggled between requests through the real proxy, once with Overwrite on the usual rig proxy and once through the API entry point on a proxy built from a default configuration whose policy settings nobody touched before NewProxy. Non-trivial = distinct sequence with a fire and >= 2 listeners / burst / order / toggle.",
		Assumptions: []string{"quiescence of the notifications is observed (co-listeners counted); components then get a bounded grace of 5 s to end on the last value (janitor.interval.applied hook); bursts whose notifications are not all delivered within 10 s are not judged", "settings are changed with ConfigProp.Overwrite, the same entry point command-line overrides use"},
		Plan:        c19Plan,
		Run:         c19Run,
		Parallel:    5,
		Floors:      map[string]map[string]int64{"quick": {"set_sequences_matching_model": 1500, "bursts_judged": 200, "bursts_while_janitor_busy": 30, "shutdown_orders_checked": 30, "policy_switch_checks": 30, "first_use_scrambles": 300, "changes_with_concurrent_unsubscribe": 400, "loaded_first_changes_judged": 30}, "thorough": {"set_sequences_matching_model": 10000, "bursts_judged": 8000, "bursts_while_janitor_busy": 1000, "shutdown_orders_checked": 500, "policy_switch_checks": 1200, "first_use_scrambles": 10000, "changes_with_concurrent_unsubscribe": 15000, "loaded_first_changes_judged": 30}},
	})
}
