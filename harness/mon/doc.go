// Package mon holds one monitor per property. Each file registers a core.Monitor in init().
package mon
