package mon

// C14 — no interleaving deadlocks the cache or a request (restated as bounded progress).
//
// Stress monitor: workers hammer a cache (keys colliding on one shard and spread over
// many) with a tiny limit so that almost every store triggers eviction from inside the
// store, the janitor ticks every millisecond, a churn goroutine fires limit / interval /
// budget changes, and the cache is destroyed during traffic (and twice). A watchdog
// samples a global progress counter; if nothing completes for the stall period while work
// is pending, all goroutine stacks are dumped and classified: goroutines blocked inside
// reservoir = violation (the dump is the witness), otherwise inconclusive.

import (
	"bytes"
	"context"
	"fmt"
	"io"
	"net/http"
	"os"
	"path/filepath"
	"runtime/pprof"
	"strings"
	"sync"
	"sync/atomic"
	"time"

	"reservoir/cache"
	"reservoir/utils/bytesize"
	"reservoir/utils/duration"
	"reservoir/utils/verifhook"
	"verifharness/core"
	"verifharness/rig"
)

type c14cfg struct {
	ID         string `json:"id"`
	Backend    string `json:"backend"`
	Shards     int    `json:"shards"`
	Workers    int    `json:"workers"`
	Ops        int    `json:"ops_per_worker"`
	Keys       int    `json:"keys"`
	Collide    bool   `json:"keys_collide_on_one_shard"`
	Limit      int64  `json:"limit"`
	Churn      bool   `json:"config_churn"`
	Destroy    string `json:"destroy"` // after | during | twice
	Level      string `json:"level"`   // cache | proxy
	Sabotage   bool   `json:"unremovable_expired_files"`
	Revalidate bool   `json:"expire_and_renew_pattern"`
}

var c14progress atomic.Int64
var c14pending atomic.Int64
var c14stalls atomic.Int64

func c14dump() string {
	var buf bytes.Buffer
	pprof.Lookup("goroutine").WriteTo(&buf, 2)
	return buf.String()
}

// c14watch runs fn and watches the progress counter; it returns false (after recording the verdict) on a stall.
func c14watch(r *core.Recorder, cs map[string]any, stall time.Duration, fn func()) bool {
	done := make(chan struct{})
	go func() {
		defer close(done)
		fn()
	}()
	last, lastChange := c14progress.Load(), time.Now()
	t := time.NewTicker(200 * time.Millisecond)
	defer t.Stop()
	for {
		select {
		case <-done:
			return true
		case <-t.C:
			if p := c14progress.Load(); p != last {
				last, lastChange = p, time.Now()
				continue
			}
			if time.Since(lastChange) < stall {
				continue
			}
			dump := c14dump()
			var blocked []string
			for _, f := range core.BlockedReservoirFrames(dump) {
				// notification goroutines of an already stopped janitor (blocked on its interval channel) are
				// leftovers, not operations: they do not make a stall a deadlock (C19 looks at them)
				if !strings.Contains(f, "newCacheJanitor") {
					blocked = append(blocked, f)
				}
			}
			c14stalls.Add(1)
			if len(blocked) > 0 {
				sig := "C14:stall:" + strings.Join(blocked, ";")
				r.Violation("C14", core.Trunc(sig, 400), fmt.Sprintf("no operation completed for %v while %d were pending; goroutines are blocked inside reservoir", stall, c14pending.Load()), cs,
					map[string]any{"blocked": blocked, "goroutine_dump": core.Trunc(dump, 30000)})
			} else {
				r.Inconclusive(fmt.Sprintf("stall of %v without a blocked reservoir frame (machine overloaded?)", stall))
			}
			return false
		}
	}
}

// keys that all map to one shard (for the given shard count), or spread.
func c14keys(n, shards int, collide bool, tag string) []cache.CacheKey {
	var out []cache.CacheKey
	want := -1
	for i := 0; len(out) < n && i < 1_000_000; i++ {
		k := cache.FromString(fmt.Sprintf("c14-%s-%d", tag, i))
		if collide {
			s := cache.VerifShardIndex(k, shards)
			if want < 0 {
				want = s
			}
			if s != want {
				continue
			}
		}
		out = append(out, k)
	}
	return out
}

func c14cache(r *core.Recorder, c c14cfg, seedRng func(string) interface{ IntN(int) int }) {
	r.Eval(1)
	wd, _ := os.Getwd()
	ctx, cancel := context.WithCancel(context.Background())
	defer cancel()
	vc, cfg := rig.NewCache(ctx, rig.CacheOpts{Backend: c.Backend, Dir: filepath.Join(wd, "c14cache", c.ID), Max: c.Limit, Shards: c.Shards, Interval: time.Millisecond})
	keys := c14keys(c.Keys, c.Shards, c.Collide, c.ID)
	var delivered atomic.Int64
	unsub1 := cfg.Cache.MaxCacheSize.OnChange(func(bytesize.ByteSize) { delivered.Add(1) })
	unsub2 := cfg.Cache.CleanupInterval.OnChange(func(duration.Duration) { delivered.Add(1) })
	defer unsub1()
	defer unsub2()
	cs := map[string]any{"id": c.ID, "config": c}
	stop := make(chan struct{})
	var destroyed atomic.Bool
	if c.Backend == "file" && c.Sabotage {
		// expired entries whose files cannot be removed (replaced by non-empty directories): every cleanup
		// cycle fails to remove them; operations on their shards must keep completing
		dir := filepath.Join(wd, "c14cache", c.ID)
		for i, k := range keys[:min(4, len(keys))] {
			if e, err := vc.Cache(k, strings.NewReader("soon-unremovable"), time.Now().Add(-time.Hour), rig.Obj{}); err == nil {
				e.Data.Close()
				os.Remove(filepath.Join(dir, k.Hex))
				os.MkdirAll(filepath.Join(dir, k.Hex, fmt.Sprintf("pin%d", i)), 0o755)
			}
		}
		time.Sleep(10 * time.Millisecond) // a few janitor cycles meet the unremovable files
		r.Count("sabotaged_cleanup_configurations", 1)
	}
	if c.Revalidate {
		for _, k := range keys {
			if e, err := vc.Cache(k, strings.NewReader("short-lived"), time.Now().Add(300*time.Microsecond), rig.Obj{}); err == nil && e.Data != nil {
				e.Data.Close()
			}
		}
	}
	ok := c14watch(r, cs, 15*time.Second, func() {
		var workers, churn sync.WaitGroup
		for w := 0; w < c.Workers; w++ {
			workers.Add(1)
			rng := seedRng(fmt.Sprintf("%s-w%d", c.ID, w))
			go func() {
				defer workers.Done()
				for i := 0; i < c.Ops; i++ {
					if destroyed.Load() {
						return // the cache must not be used after Destroy
					}
					k := keys[rng.IntN(len(keys))]
					c14pending.Add(1)
					op := rng.IntN(10)
					if c.Revalidate {
						// the revalidation pattern: entries that are already expired get their expiry renewed while
						// the janitor's cycles are collecting and removing expired entries
						switch {
						case op < 1:
							if e, err := vc.Cache(k, strings.NewReader("short-lived"), time.Now().Add(300*time.Microsecond), rig.Obj{}); err == nil && e.Data != nil {
								e.Data.Close()
							}
							op = -1
						case op < 9:
							vc.UpdateMetadata(k, func(m *cache.EntryMetadata[rig.Obj]) { m.Expires = time.Now().Add(300 * time.Microsecond) })
							op = -1
						default:
							op = 5
						}
					}
					switch op {
					case -1:
					case 0, 1, 2, 3:
						body := string(rig.Body(1, i, 64+rng.IntN(400)))
						var src io.Reader = strings.NewReader(body)
						switch rng.IntN(12) {
						case 0:
							src = strings.NewReader("") // an empty body: the file backend refuses it, the memory backend stores it
						case 1:
							src = &failingReader{data: []byte(body), fail: rng.IntN(len(body))} // the source breaks off part-way
						}
						if e, err := vc.Cache(k, src, time.Now().Add(time.Duration(rng.IntN(3)-1)*time.Hour), rig.Obj{}); err == nil && e != nil && e.Data != nil {
							e.Data.Close()
						}
					case 4, 5, 6:
						if e, err := vc.Get(k); err == nil {
							io.Copy(io.Discard, e.Data)
							e.Data.Close()
						}
					case 7:
						vc.Delete(k)
					case 8:
						vc.UpdateMetadata(k, func(m *cache.EntryMetadata[rig.Obj]) { m.Expires = time.Now().Add(time.Hour) })
					default:
						vc.GetMetadata(k)
					}
					c14pending.Add(-1)
					c14progress.Add(1)
				}
			}()
		}
		if c.Revalidate {
			// back-to-back cleanup cycles on top of the ticker-driven ones
			churn.Add(1)
			go func() {
				defer churn.Done()
				for {
					select {
					case <-stop:
						return
					default:
						vc.VerifRunCleanupCycle()
					}
				}
			}()
		}
		if c.Backend == "file" && !c.Sabotage {
			// somebody else tidies the cache directory (a tmp cleaner, an operator): data files of indexed entries
			// disappear behind the cache's back while the workers keep looking them up
			churn.Add(1)
			dir := filepath.Join(wd, "c14cache", c.ID)
			go func() {
				defer churn.Done()
				for i := 0; ; i++ {
					select {
					case <-stop:
						return
					default:
					}
					if ents, err := os.ReadDir(dir); err == nil && len(ents) > 0 {
						e := ents[i%len(ents)]
						if !e.IsDir() && !strings.Contains(e.Name(), ".tmp") {
							os.Remove(filepath.Join(dir, e.Name()))
						}
					}
					time.Sleep(300 * time.Microsecond)
				}
			}()
		}
		if c.Churn {
			churn.Add(1)
			rng := seedRng(c.ID + "-churn")
			go func() {
				defer churn.Done()
				for i := 0; ; i++ {
					select {
					case <-stop:
						return
					default:
					}
					switch i % 3 {
					case 0:
						cfg.Cache.MaxCacheSize.Overwrite(bytesize.ByteSize(c.Limit + int64(rng.IntN(2000))))
					case 1:
						cfg.Cache.CleanupInterval.Overwrite(duration.Duration(time.Duration(1+rng.IntN(3)) * time.Millisecond))
					case 2:
						cfg.Cache.Memory.MemoryBudgetPercent.Overwrite(1 + rng.IntN(90))
					}
					time.Sleep(200 * time.Microsecond)
				}
			}()
		}
		if c.Destroy == "during" {
			time.Sleep(5 * time.Millisecond)
			c14pending.Add(1)
			destroyed.Store(true)
			vc.Destroy()
			c14pending.Add(-1)
			c14progress.Add(1)
		}
		workers.Wait()
		close(stop)
		churn.Wait()
		c14pending.Add(1)
		switch c.Destroy {
		case "twice":
			vc.Destroy()
			vc.Destroy()
		case "after":
			vc.Destroy()
		}
		c14pending.Add(-1)
		c14progress.Add(1)
	})
	if ok {
		r.Count("configurations_completed", 1)
		r.Count("operations_completed", int64(c.Workers*c.Ops))
		r.Count("config_events_delivered", delivered.Load())
		r.Nontrivial(c.Backend, c.Shards, c.Workers, c.Collide, c.Limit, c.Churn, c.Destroy)
	}
}

func c14proxy(r *core.Recorder, c c14cfg, seedRng func(string) interface{ IntN(int) int }) {
	r.Eval(1)
	o := rig.StartOrigin(func(w http.ResponseWriter, q *http.Request, rec *rig.OriginReq) {
		n := 200 + len(q.URL.Path)*37%900
		rig.ServeBody(w, 5, 1, n, map[string]string{"Cache-Control": "max-age=1"})
	})
	defer o.Close()
	p := rig.StartProxy(rig.ProxyOpts{Backend: c.Backend, Shards: c.Shards, Max: c.Limit, Interval: time.Millisecond})
	cs := map[string]any{"id": c.ID, "config": c}
	stop := make(chan struct{})
	ok := c14watch(r, cs, 20*time.Second, func() {
		var wg sync.WaitGroup
		for w := 0; w < c.Workers; w++ {
			wg.Add(1)
			rng := seedRng(fmt.Sprintf("%s-w%d", c.ID, w))
			go func() {
				defer wg.Done()
				for i := 0; i < c.Ops; i++ {
					q := rig.Req{Target: fmt.Sprintf("/r%d", rng.IntN(c.Keys)), Timeout: 60 * time.Second}
					if rng.IntN(4) == 0 {
						q.Header = [][2]string{{"Range", "bytes=0-9"}}
					}
					c14pending.Add(1)
					mode := rig.Plain
					if rng.IntN(6) == 0 {
						mode = rig.Tunnl
					}
					rig.Do(p, mode, o.Addr, q)
					c14pending.Add(-1)
					c14progress.Add(1)
				}
			}()
		}
		if c.Churn {
			go func() {
				rng := seedRng(c.ID + "-churn")
				for i := 0; ; i++ {
					select {
					case <-stop:
						return
					default:
					}
					switch i % 4 {
					case 0:
						p.Cfg.Cache.MaxCacheSize.Overwrite(bytesize.ByteSize(c.Limit + int64(rng.IntN(4000))))
					case 1:
						p.Cfg.Cache.CleanupInterval.Overwrite(duration.Duration(time.Duration(1+rng.IntN(3)) * time.Millisecond))
					case 2:
						p.Cfg.Proxy.CachePolicy.ForceDefaultMaxAge.Overwrite(i%8 == 2)
					case 3:
						p.Cfg.Cache.Memory.MemoryBudgetPercent.Overwrite(1 + rng.IntN(90))
					}
					time.Sleep(300 * time.Microsecond)
				}
			}()
		}
		wg.Wait()
		close(stop)
		c14pending.Add(1)
		p.Close()
		c14pending.Add(-1)
		c14progress.Add(1)
	})
	if ok {
		r.Count("configurations_completed", 1)
		r.Count("proxy_requests_completed", int64(c.Workers*c.Ops))
		r.Nontrivial("proxy", c.Backend, c.Shards, c.Workers, c.Limit, c.Churn)
	}
}

func c14Run(b core.Batch, r *core.Recorder) {
	rig.QuietLogs()
	var storeEvictions atomic.Int64
	verifhook.Set("janitor.evict.sorted", func(any) { storeEvictions.Add(1) })
	mk := func(salt string) interface{ IntN(int) int } { return b.Rand(salt) }
	backend := b.Str("backend", "memory")
	level := b.Str("level", "cache")
	ops := b.Int("ops", 300)
	n := 0
	for _, sh := range []int{1, 2, 3, 1024} {
		for _, collide := range []bool{true, false} {
			for _, destroy := range []string{"after", "during", "twice"} {
				n++
				c := c14cfg{ID: fmt.Sprintf("%s-%s-%d", level, backend, n), Backend: backend, Shards: sh, Workers: b.Int("workers", 16), Ops: ops, Keys: 12, Collide: collide,
					Limit: 1500, Churn: n%2 == 0 || destroy == "after", Destroy: destroy, Level: level, Sabotage: backend == "file" && n%3 == 0}
				if level == "proxy" {
					if collide || destroy != "after" {
						continue
					}
					c.Workers, c.Ops, c.Limit = 12, b.Int("ops", 60), 3000
				}
				if level == "cache" && sh == 1024 && !collide {
					// many keys on distinct locks, entries expiring and being renewed under the janitor's feet
					c.Keys, c.Revalidate, c.Limit, c.Workers, c.Ops = 400, true, 1<<30, 4, c.Ops*4
				}
				if !r.Case(c.ID, c) {
					continue
				}
				if n <= 2 {
					r.Sample(c)
				}
				if c14stalls.Load() >= 2 {
					// two configurations of this child already stalled: do not spend the stall period on each remaining one
					r.NotJudged("skipped-after-repeated-stalls")
					continue
				}
				before := storeEvictions.Load()
				if level == "proxy" {
					c14proxy(r, c, mk)
				} else {
					c14cache(r, c, mk)
				}
				ev := storeEvictions.Load() - before
				r.Count("evictions_started", ev)
				if sh == 1 {
					r.Count("evictions_started_with_one_shard", ev)
				}
			}
		}
	}
	if level == "cache" {
		c14stops(r, backend)
	}
}

// c14stops: "stopping the cache never blocks", with interval changes the janitor has not consumed (or will never
// consume) at the moment of the stop: the context was cancelled first, the janitor loop is parked inside a cycle, or
// the changes arrive back to back right before Destroy.
func c14stops(r *core.Recorder, backend string) {
	wd, _ := os.Getwd()
	n := 0
	for rep := 0; rep < 3; rep++ {
		for _, variant := range []string{"context-cancelled-first", "janitor-parked-in-a-cycle", "changes-right-before-destroy"} {
			for _, changes := range []int{2, 3, 6} {
				n++
				id := fmt.Sprintf("stop-%s-%d", backend, n)
				cs := map[string]any{"id": id, "backend": backend, "stop_variant": variant, "interval_changes_before_destroy": changes}
				if !r.Case(id, cs) {
					continue
				}
				if c14stalls.Load() >= 2 {
					r.NotJudged("skipped-after-repeated-stalls")
					continue
				}
				r.Eval(1)
				ctx, cancel := context.WithCancel(context.Background())
				vc, cfg := rig.NewCache(ctx, rig.CacheOpts{Backend: backend, Dir: filepath.Join(wd, "c14stop", id), Max: 1 << 30, Shards: 2, Interval: time.Hour})
				release := make(chan struct{})
				var once sync.Once
				switch variant {
				case "context-cancelled-first":
					cancel()
					time.Sleep(3 * time.Millisecond)
				case "janitor-parked-in-a-cycle":
					parked := make(chan struct{}, 1)
					var armed atomic.Bool
					armed.Store(true)
					verifhook.Set("janitor.scan.done", func(any) {
						if armed.CompareAndSwap(true, false) {
							parked <- struct{}{}
							<-release
						}
					})
					cfg.Cache.CleanupInterval.Overwrite(duration.Duration(time.Millisecond))
					select {
					case <-parked:
					case <-time.After(3 * time.Second):
						armed.Store(false)
					}
				}
				for k := 0; k < changes; k++ {
					cfg.Cache.CleanupInterval.Overwrite(duration.Duration(time.Duration(20+k) * time.Minute))
				}
				if variant != "changes-right-before-destroy" {
					time.Sleep(2 * time.Millisecond) // the notification goroutines have run as far as they can
				}
				c14pending.Add(1)
				ok := c14watch(r, cs, 10*time.Second, func() {
					vc.Destroy()
					c14progress.Add(1)
				})
				c14pending.Add(-1)
				once.Do(func() { close(release) })
				verifhook.Set("janitor.scan.done", nil)
				cancel()
				if ok {
					r.Count("stops_with_unconsumed_interval_changes", 1)
					r.Nontrivial("stop", backend, variant, changes, rep)
				}
			}
		}
	}
}

func c14Plan(tier string, seed int64) []core.Batch {
	ops := 300
	var envs [][]string = [][]string{nil}
	if tier == "thorough" {
		ops = 3000
		envs = [][]string{nil, {"GOMAXPROCS=1"}, {"GOMAXPROCS=2"}, {"GOMAXPROCS=4"}}
	}
	var bs []core.Batch
	for ei, env := range envs {
		for _, be := range []string{"memory", "file"} {
			for _, race := range []bool{true, false} {
				bs = append(bs, core.Batch{Name: fmt.Sprintf("cache-%s-race%v-e%d", be, race, ei), Race: race, TimeoutS: 1500, Env: env, Args: map[string]any{"backend": be, "level": "cache", "ops": ops}})
			}
			bs = append(bs, core.Batch{Name: fmt.Sprintf("proxy-%s-e%d", be, ei), Race: true, TimeoutS: 1500, Env: env, Args: map[string]any{"backend": be, "level": "proxy", "ops": ops / 5}})
		}
	}
	return bs
}

func init() {
	core.Register(&core.Monitor{
		ID:    "C14",
		Level: "exploration",
		Rule: "stress configurations = backend x shard count {1,2,3,1024} x key placement {all keys on one shard, spread} x shutdown {Destroy after / during traffic / twice} x config churn on/off, 16 workers x <ops> random store (also of an empty body and from a source that breaks off part-way)/get/delete/update/get-metadata on 12 keys, limit 1500 B (so stores keep evicting from inside the store), janitor at 1 ms, on the file backend data files removed from the directory behind the cache's back; the same through the real proxy (12 clients, plain and tunnel, Range requests, policy/limit/interval/budget churn); race and plain builds (thorough: also GOMAXPROCS 1/2/4); stops with 2-6 interval changes the janitor has not consumed (context cancelled first / janitor loop parked inside a cycle by a hook / changes right before Destroy). " +
			"A watchdog dumps all goroutines when no operation completes for 15-20 s while work is pending; blocked reservoir frames = violation, none = inconclusive. Non-trivial = distinct configuration that ran to completion.",
		Assumptions: []string{"bounded progress under the listed workloads, not deadlock freedom", "a stall without any goroutine blocked inside reservoir is reported as inconclusive, never as a violation"},
		Plan:        c14Plan,
		Run:         c14Run,
		Parallel:    3,
		Floors:      map[string]map[string]int64{"quick": {"configurations_completed": 80, "evictions_started_with_one_shard": 1000, "stops_with_unconsumed_interval_changes": 100}, "thorough": {"configurations_completed": 320, "evictions_started_with_one_shard": 10000, "stops_with_unconsumed_interval_changes": 400}},
	})
}
