package mon

// C18 — only workable configurations are accepted; a rejected update changes nothing.
//
// Child-process monitor. A worker process loads a configuration, subscribes a recorder to
// every property, starts a real cache + janitor + proxy under it and applies generated
// update documents one after the other, writing a snapshot (all effective values, file
// bytes, limits the cache enforces, janitor interval, notifications delivered) before and
// after each. The parent judges: rejected => nothing moved and the process is alive;
// accepted => exactly the addressed settings moved, the file loads to the same settings in
// a fresh process, and a fresh process can start a cache + proxy under it and serve a
// request. Write failures are enumerated with RLIMIT_FSIZE = n around the update.

import (
	"crypto/sha256"
	"encoding/hex"
	"encoding/json"
	"fmt"
	"net/http"
	"os"
	"path/filepath"
	"sort"
	"strings"
	"sync"
	"sync/atomic"
	"time"

	"reservoir/config"
	"reservoir/utils/verifhook"
	"verifharness/core"
	"verifharness/rig"
)

type c18doc struct {
	Class string         `json:"class"`
	Doc   map[string]any `json:"doc"`
	Fsize int            `json:"fsize"` // -1 = no write fault
}

type c18snap struct {
	Values   map[string]any `json:"values"`
	FileSHA  string         `json:"file_sha"`
	FileLen  int            `json:"file_len"`
	File     string         `json:"file,omitempty"`
	MaxSize  int64          `json:"cache_max_size"`
	MemCap   int64          `json:"cache_mem_cap"`
	Interval int64          `json:"janitor_interval_ns"`
	Events   int64          `json:"notifications"`
	Restart  bool           `json:"restart_required"` // the process-wide "a restart is needed" state the API reports
}

type c18result struct {
	I        int      `json:"i"`
	Phase    string   `json:"phase"`
	Accepted bool     `json:"accepted"`
	Err      string   `json:"err,omitempty"`
	S0       *c18snap `json:"s0,omitempty"`
	S1       *c18snap `json:"s1,omitempty"`
	EventLog []string `json:"event_log,omitempty"`
}

// cfg-apply <docs.json> <results.jsonl> <from-index>
func auxCfgApply(args []string) {
	rig.QuietLogs()
	raw, _ := os.ReadFile(args[0])
	var docs []c18doc
	json.Unmarshal(raw, &docs)
	from := 0
	fmt.Sscanf(args[2], "%d", &from)
	out, _ := os.OpenFile(args[1], os.O_CREATE|os.O_WRONLY|os.O_APPEND, 0o644)
	emit := func(r c18result) {
		b, _ := json.Marshal(r)
		out.Write(append(b, '\n'))
		out.Sync()
	}
	cfg, err := config.LoadOrDefault("var/config.json")
	if err != nil {
		emit(c18result{I: from, Phase: "load-failed", Err: err.Error()})
		return
	}
	var events atomic.Int64
	var evMu sync.Mutex
	var evLog []string
	cfgSubscribeAll(cfg, func(path string, v any) {
		events.Add(1)
		evMu.Lock()
		evLog = append(evLog, fmt.Sprintf("%s=%v", path, v))
		evMu.Unlock()
	})
	var lastInterval atomic.Int64
	lastInterval.Store(int64(cfg.Cache.CleanupInterval.Read().Cast()))
	verifhook.Set("janitor.interval.applied", func(arg any) { lastInterval.Store(int64(arg.(time.Duration))) })
	p, err := rig.StartProxyWith(cfg)
	if err != nil {
		emit(c18result{I: from, Phase: "start-failed", Err: err.Error()})
		return
	}
	snap := func() *c18snap {
		s := &c18snap{Values: cfgWalk(cfg), Events: events.Load(), Interval: lastInterval.Load(), Restart: config.IsRestartNeeded()}
		fb, _ := os.ReadFile("var/config.json")
		h := sha256.Sum256(fb)
		s.FileSHA, s.FileLen, s.File = hex.EncodeToString(h[:8]), len(fb), string(fb)
		s.MaxSize, s.MemCap = p.P.VerifCacheLimits()
		return s
	}
	for i := from; i < len(docs); i++ {
		d := docs[i]
		emit(c18result{I: i, Phase: "start"})
		time.Sleep(2 * time.Millisecond)
		s0 := snap()
		evMu.Lock()
		evLog = nil
		evMu.Unlock()
		var restore func()
		if d.Fsize >= 0 {
			restore, _ = setFsizeLimit(uint64(d.Fsize))
		}
		_, uerr := config.UpdatePartialFromConfig(cfg, d.Doc)
		if restore != nil {
			restore()
		}
		time.Sleep(25 * time.Millisecond) // asynchronous listeners and the janitor
		s1 := snap()
		res := c18result{I: i, Phase: "done", Accepted: uerr == nil, S0: s0, S1: s1}
		if uerr != nil {
			res.Err = uerr.Error()
		}
		evMu.Lock()
		res.EventLog = append([]string(nil), evLog...)
		evMu.Unlock()
		// keep the log small: the file text only when it changed
		if s0.FileSHA == s1.FileSHA {
			s1.File = ""
		}
		emit(res)
	}
	emit(c18result{I: len(docs), Phase: "end"})
}

// cfg-start: a fresh process loads the file, starts cache + proxy under it and serves one request.
func auxCfgStart(args []string) {
	rig.QuietLogs()
	res := map[string]any{}
	defer func() {
		if e := recover(); e != nil {
			res["panic"] = fmt.Sprint(e)
		}
		json.NewEncoder(os.Stdout).Encode(res)
	}()
	cfg, err := config.LoadOrDefault("var/config.json")
	if err != nil {
		res["error"] = err.Error()
		return
	}
	res["values"] = cfgWalk(cfg)
	if fb, err := os.ReadFile("var/config.json"); err == nil {
		res["file_after_load"] = string(fb)
	}
	o := rig.StartOrigin(func(w http.ResponseWriter, q *http.Request, rec *rig.OriginReq) {
		rig.ServeBody(w, 8, 1, 500, map[string]string{"Cache-Control": "max-age=60"})
	})
	p, err := rig.StartProxyWith(cfg)
	if err != nil {
		res["error"] = "start: " + err.Error()
		return
	}
	r1 := rig.Do(p, rig.Plain, o.Addr, rig.Req{Target: "/start-check", Timeout: 10 * time.Second})
	r2 := rig.Do(p, rig.Plain, o.Addr, rig.Req{Target: "/start-check", Timeout: 10 * time.Second})
	res["status1"], res["status2"] = r1.Status, r2.Status
	res["err1"], res["err2"] = fmt.Sprint(r1.Err), fmt.Sprint(r2.Err)
	res["server_panics"] = p.Panics()
	p.P.VerifRunCleanupCycle()
	// the configuration in force can be shown (what GET /api/config does) and accepts a valid update
	if _, err := json.Marshal(cfg); err != nil {
		res["marshal_error"] = err.Error()
	}
	cur := cfg.Proxy.RetryOnInvalidRange.Read()
	st, uerr := config.UpdatePartialFromConfig(cfg, map[string]any{"proxy": map[string]any{"retry_on_invalid_range": !cur}})
	if uerr != nil || st == config.UpdateStatusFailed || cfg.Proxy.RetryOnInvalidRange.Read() == cur {
		res["valid_update_refused"] = fmt.Sprintf("status=%v err=%v value-moved=%v", st, uerr, cfg.Proxy.RetryOnInvalidRange.Read() != cur)
	}
	if fb, err := os.ReadFile("var/config.json"); err == nil {
		res["file_after"] = string(fb)
	}
}

func c18docs(b core.Batch) []c18doc {
	rng := b.Rand("c18-docs")
	var docs []c18doc
	add := func(class string, flat map[string]any) {
		raw, _ := json.Marshal(cfgNest(flat))
		var m map[string]any
		json.Unmarshal(raw, &m)
		docs = append(docs, c18doc{Class: class, Doc: m, Fsize: -1})
	}
	raw := func(class, js string) {
		var m map[string]any
		json.Unmarshal([]byte(js), &m)
		docs = append(docs, c18doc{Class: class, Doc: m, Fsize: -1})
	}
	valid := func() map[string]any {
		all := map[string]any{
			"cache.max_cache_size":                     fmt.Sprintf("%dK", 1+rng.IntN(100000)),
			"cache.cleanup_interval":                   fmt.Sprintf("%dm", 1+rng.IntN(600)),
			"cache.memory.memory_budget_percent":       1 + rng.IntN(99),
			"cache.lock_shards":                        1 + rng.IntN(2000),
			"proxy.retry_on_invalid_range":             rng.IntN(2) == 0,
			"proxy.cache_policy.default_max_age":       fmt.Sprintf("%ds", 1+rng.IntN(9000)),
			"proxy.cache_policy.force_default_max_age": rng.IntN(2) == 0,
			"proxy.listen":                             fmt.Sprintf(":%d", 1024+rng.IntN(60000)),
			"logging.max_backups":                      rng.IntN(20),
			"webserver.listen":                         fmt.Sprintf("localhost:%d", 1024+rng.IntN(60000)),
		}
		out := map[string]any{}
		for k, v := range all {
			if rng.IntN(4) == 0 {
				out[k] = v
			}
		}
		if len(out) == 0 {
			out["cache.max_cache_size"] = all["cache.max_cache_size"]
		}
		return out
	}
	n := b.Int("n", 40)
	for i := 0; i < n; i++ {
		add("valid", valid())
		switch i % 8 {
		case 0:
			for _, bad := range []map[string]any{{"cache.max_cache_size": "0B"}, {"cache.cleanup_interval": "0s"}, {"cache.cleanup_interval": "-5s"}, {"cache.memory.memory_budget_percent": 101}, {"cache.memory.memory_budget_percent": -1},
				{"cache.type": "disk"}, {"cache.type": "File"}, {"cache.type": "MEMORY"}, {"cache.type": " file"}, {"cache.file.dir": ""}, {"proxy.listen": ""}, {"webserver.listen": ""}, {"proxy.ca_cert": ""}} {
				add("invalid-value", bad)
			}
		case 1:
			for _, bad := range []map[string]any{{"cache.max_cache_size": 5}, {"cache.max_cache_size": true}, {"cache.max_cache_size": "ten"}, {"cache.cleanup_interval": 5}, {"cache.cleanup_interval": "abc"},
				{"cache.lock_shards": "4"}, {"cache.lock_shards": 1.5}, {"logging.level": "LOUD"}, {"proxy.retry_on_invalid_range": "yes"}, {"cache.memory.memory_budget_percent": "50"}} {
				add("ill-typed", bad)
			}
		case 2:
			// a valid setting together with one that fails (Go's map order decides which is staged first)
			for k := 0; k < 6; k++ {
				v := valid()
				bad := []map[string]any{{"cache.cleanup_interval": "0s"}, {"cache.max_cache_size": "0B"}, {"cache.type": "disk"}, {"cache.max_cache_size": 7}, {"logging.level": "LOUD"}, {"cache.memory.memory_budget_percent": 500}}[k]
				if k%2 == 1 {
					v["proxy.listen"] = fmt.Sprintf(":%d", 2000+rng.IntN(500)) // a restart-bound setting next to the failing one
				}
				for kk, vv := range bad {
					v[kk] = vv
				}
				add("valid-plus-failing", v)
			}
		case 3:
			raw("unknown-key", `{"cache":{"nope":1}}`)
			raw("unknown-key", `{"nope":{"x":1}}`)
			raw("unknown-key", `{"cache":{"nope":1,"max_cache_size":"77K"}}`)
			raw("empty", `{}`)
			raw("wrong-shape", `{"cache":5}`)
			raw("wrong-shape", `{"cache":{"memory":7}}`)
			raw("wrong-shape", `{"cache":{"max_cache_size":{"a":1}}}`)
			raw("wrong-shape", `{"cache":{"max_cache_size":null}}`)
			// the same setting twice in one document, the second time under a name in another letter case (an unknown
			// key today): whichever way it is read, the running settings and the saved file must agree afterwards
			raw("case-variant-keys", `{"cache":{"lock_shards":8,"Lock_Shards":0}}`)
			raw("case-variant-keys", `{"cache":{"max_cache_size":"5G","MAX_CACHE_SIZE":"7G"}}`)
			raw("case-variant-keys", `{"cache":{"cleanup_interval":"10m","Cleanup_Interval":"0s"},"Cache":{"lock_shards":0}}`)
			raw("case-variant-keys", `{"proxy":{"retry_on_range_416":false,"Retry_On_Range_416":true},"logging":{"max_backups":4,"MAX_backups":-7}}`)
		case 4:
			add("boundary", map[string]any{"cache.lock_shards": 0})
			add("boundary", map[string]any{"cache.lock_shards": -3})
			add("boundary", map[string]any{"cache.lock_shards": 1})
			add("boundary", map[string]any{"cache.memory.memory_budget_percent": 0})
			add("boundary", map[string]any{"cache.memory.memory_budget_percent": 100})
			add("boundary", map[string]any{"cache.max_cache_size": "1B"})
			add("boundary", map[string]any{"cache.cleanup_interval": "1ns"})
			add("boundary", map[string]any{"cache.type": "file", "cache.file.dir": "var/c18cache/"})
			add("boundary", map[string]any{"cache.type": "memory"})
			add("boundary", map[string]any{"logging.max_backups": -1})
			add("boundary", map[string]any{"proxy.cache_policy.default_max_age": "0s"})
			add("boundary", map[string]any{"proxy.cache_policy.default_max_age": "-1h"})
		}
	}
	return docs
}

func c18class(d c18doc) string {
	// name the failing ingredient for signatures
	flat := map[string]any{}
	var rec func(m map[string]any, p string)
	rec = func(m map[string]any, p string) {
		for k, v := range m {
			if mm, ok := v.(map[string]any); ok {
				rec(mm, p+k+".")
			} else {
				flat[p+k] = v
			}
		}
	}
	rec(d.Doc, "")
	keys := []string{}
	for k, v := range flat {
		s := fmt.Sprint(v)
		switch {
		case k == "cache.cleanup_interval" && (s == "0s" || strings.HasPrefix(s, "-")):
			keys = append(keys, "cleanup_interval<=0")
		case k == "cache.max_cache_size" && s == "0B":
			keys = append(keys, "max_cache_size=0")
		case k == "cache.lock_shards" && (s == "0" || strings.HasPrefix(s, "-")):
			keys = append(keys, "lock_shards<=0")
		case k == "cache.type" && s == "disk":
			keys = append(keys, "type=unknown")
		case k == "cache.memory.memory_budget_percent" && (s == "101" || s == "-1" || s == "500"):
			keys = append(keys, "budget-out-of-range")
		}
	}
	sort.Strings(keys)
	if len(keys) == 0 {
		return d.Class
	}
	return d.Class + ":" + strings.Join(keys, "+")
}

func c18addressed(d c18doc) map[string]bool {
	out := map[string]bool{}
	var rec func(m map[string]any, p string)
	rec = func(m map[string]any, p string) {
		for k, v := range m {
			if mm, ok := v.(map[string]any); ok {
				rec(mm, p+k+".")
			} else {
				out[p+k] = true
			}
		}
	}
	rec(d.Doc, "")
	return out
}

func c18readResults(path string) []c18result {
	var out []c18result
	for _, l := range core.ReadLines(path) {
		var r c18result
		dec := json.NewDecoder(strings.NewReader(l))
		dec.UseNumber() // int64 values must not pass through float64
		if dec.Decode(&r) == nil {
			out = append(out, r)
		}
	}
	return out
}

func c18snapDiff(a, b *c18snap, withEvents bool) []string {
	d := cfgDiff(a.Values, b.Values)
	if a.FileSHA != b.FileSHA {
		d = append(d, fmt.Sprintf("file on disk changed (%d -> %d bytes)", a.FileLen, b.FileLen))
	}
	if a.MaxSize != b.MaxSize {
		d = append(d, fmt.Sprintf("limit enforced by the cache: %d -> %d", a.MaxSize, b.MaxSize))
	}
	if a.MemCap != b.MemCap {
		d = append(d, fmt.Sprintf("memory cap of the cache: %d -> %d", a.MemCap, b.MemCap))
	}
	if a.Interval != b.Interval {
		d = append(d, fmt.Sprintf("janitor interval: %v -> %v", time.Duration(a.Interval), time.Duration(b.Interval)))
	}
	if withEvents && a.Events != b.Events {
		d = append(d, fmt.Sprintf("listeners notified %d times", b.Events-a.Events))
	}
	if a.Restart != b.Restart {
		d = append(d, fmt.Sprintf("restart-required state: %v -> %v", a.Restart, b.Restart))
	}
	return d
}

// ---- configuration files ---------------------------------------------------------------------------

type c18file struct {
	ID    string `json:"id"`
	Class string `json:"class"`
	What  string `json:"what"`
	Text  string `json:"text"`
}

func c18files(b core.Batch) []c18file {
	rng := b.Rand("c18-files")
	def, _ := json.Marshal(config.NewDefault())
	fresh := func() map[string]any {
		var m map[string]any
		json.Unmarshal(def, &m)
		return m
	}
	// all leaf and section paths of the default document
	var leaves, sections []string
	var walk func(m map[string]any, p string)
	walk = func(m map[string]any, p string) {
		for k, v := range m {
			if mm, ok := v.(map[string]any); ok {
				sections = append(sections, p+k)
				walk(mm, p+k+".")
			} else {
				leaves = append(leaves, p+k)
			}
		}
	}
	walk(fresh(), "")
	sort.Strings(leaves)
	sort.Strings(sections)
	at := func(m map[string]any, dotted string) (map[string]any, string) {
		parts := strings.Split(dotted, ".")
		for _, q := range parts[:len(parts)-1] {
			m = m[q].(map[string]any)
		}
		return m, parts[len(parts)-1]
	}
	var out []c18file
	emit := func(class, what string, doc any) {
		txt, _ := json.MarshalIndent(doc, "", "  ")
		out = append(out, c18file{ID: fmt.Sprintf("f%d", len(out)), Class: class, What: what, Text: string(txt)})
	}
	emit("complete-default", "", fresh())
	for _, path := range append(append([]string{}, leaves...), sections...) {
		m := fresh()
		mm, k := at(m, path)
		delete(mm, k)
		emit("property-missing", path, m)
	}
	for _, path := range leaves {
		for _, bad := range []any{nil, 5, "x", true, []any{}, map[string]any{}, "", -1, 1.5} {
			m := fresh()
			mm, k := at(m, path)
			if fmt.Sprintf("%T", mm[k]) == fmt.Sprintf("%T", bad) && bad != "" && bad != "x" {
				continue // the same JSON type with an ordinary value: not a mutation
			}
			mm[k] = bad
			emit("property-odd-value", fmt.Sprintf("%s=%v(%T)", path, bad, bad), m)
		}
	}
	for _, sec := range append([]string{""}, sections...) {
		m := fresh()
		if sec == "" {
			m["nope"] = 1
		} else {
			mm, k := at(m, sec)
			mm[k].(map[string]any)["nope"] = 1
		}
		emit("unknown-key", sec+".nope", m)
	}
	for _, bad := range []map[string]any{{"cache.max_cache_size": "0B"}, {"cache.cleanup_interval": "0s"}, {"cache.cleanup_interval": "-5s"}, {"cache.memory.memory_budget_percent": 101}, {"cache.memory.memory_budget_percent": -1},
		{"cache.type": "disk"}, {"cache.type": "File"}, {"cache.type": "Memory"}, {"cache.file.dir": ""}, {"proxy.listen": ""}, {"webserver.listen": ""}, {"proxy.ca_cert": ""}, {"cache.lock_shards": 0}, {"cache.lock_shards": -3}, {"logging.level": "LOUD"}} {
		m := fresh()
		for path, v := range bad {
			mm, k := at(m, path)
			mm[k] = v
		}
		emit("invalid-value", fmt.Sprint(bad), m)
	}
	for i := 0; i < b.Int("valid_files", 10); i++ {
		m := fresh()
		for path, v := range map[string]any{"cache.max_cache_size": fmt.Sprintf("%dK", 1+rng.IntN(100000)), "cache.cleanup_interval": fmt.Sprintf("%dm", 1+rng.IntN(600)), "cache.lock_shards": 1 + rng.IntN(2000),
			"cache.memory.memory_budget_percent": rng.IntN(101), "proxy.cache_policy.default_max_age": fmt.Sprintf("%ds", rng.IntN(9000)), "logging.max_backups": rng.IntN(20), "cache.type": []string{"memory", "file"}[rng.IntN(2)]} {
			if rng.IntN(2) == 0 {
				mm, k := at(m, path)
				mm[k] = v
			}
		}
		emit("valid-changes", "", m)
	}
	full, _ := json.MarshalIndent(fresh(), "", "  ")
	for _, n := range []int{0, 1, len(full) / 3, len(full) / 2, len(full) - 2, len(full) - 1} {
		out = append(out, c18file{ID: fmt.Sprintf("f%d", len(out)), Class: "torn-file", What: fmt.Sprintf("first %d of %d bytes", n, len(full)), Text: string(full[:n])})
	}
	for _, t := range []string{"[]", "null", "5", "\"x\"", "{}", "{\"proxy\":{}}", "not json", string(full) + "}", string(full) + string(full)} {
		out = append(out, c18file{ID: fmt.Sprintf("f%d", len(out)), Class: "not-a-configuration", What: core.Trunc(t, 30), Text: t})
	}
	return out
}

// c18RunFiles: each file is given to a fresh process that loads it (LoadOrDefault), starts a cache + proxy under
// whatever configuration it was handed, serves two requests, shows the settings and applies one valid update.
func c18RunFiles(b core.Batch, r *core.Recorder) {
	wd, _ := os.Getwd()
	self, _ := os.Executable()
	files := c18files(b)
	def := cfgWalk(config.NewDefault())
	for _, f := range files {
		if !r.Case(f.ID, f) {
			continue
		}
		r.Eval(1)
		r.Nontrivial(f.Class, f.What)
		dir := filepath.Join(wd, "filecheck")
		os.RemoveAll(dir)
		os.MkdirAll(filepath.Join(dir, "var"), 0o755)
		os.WriteFile(filepath.Join(dir, "var/config.json"), []byte(f.Text), 0o644)
		out, serr, _ := c18spawnRaw(dir, self, "cfg-start")
		var sres map[string]any
		dec := json.NewDecoder(strings.NewReader(out))
		dec.UseNumber()
		dec.Decode(&sres)
		cs := map[string]any{"id": f.ID, "class": f.Class, "what": f.What, "file": core.Trunc(f.Text, 1500)}
		r.Count("files_loaded_by_a_fresh_process", 1)
		sig := "C18:file:" + f.Class
		if sres == nil {
			kind, frame := core.ClassifyAbort(serr)
			r.Violation("C18", sig+":process-died", fmt.Sprintf("loading the file (%s) and starting under the result kills the process: %s (%s)", f.What, core.Trunc(kind, 150), frame), cs, core.Trunc(serr, 4000))
			continue
		}
		kept := fmt.Sprint(sres["file_after_load"]) == f.Text
		if kept {
			r.Count("files_accepted", 1)
		} else {
			r.Count("files_rejected_and_reset", 1)
		}
		verdict := "accepted"
		if !kept {
			verdict = "rejected-and-reset"
		}
		delete(sres, "file_after")
		switch {
		case sres["panic"] != nil || sres["error"] != nil:
			r.Violation("C18", sig+":"+verdict+":cannot-start", fmt.Sprintf("file with %s was %s, and the process cannot start under the result: %v %v", f.What, verdict, sres["panic"], sres["error"]), cs, sres)
		case func() bool { l, _ := sres["server_panics"].([]any); return len(l) > 0 }():
			r.Violation("C18", sig+":"+verdict+":request-panics", "under the configuration handed out a request panics in the proxy", cs, sres)
		case fmt.Sprint(sres["err1"]) != "<nil>" || fmt.Sprint(sres["err2"]) != "<nil>":
			r.Violation("C18", sig+":"+verdict+":request-unanswered", fmt.Sprintf("under the configuration handed out a request is not answered: %v %v", sres["err1"], sres["err2"]), cs, sres)
		case sres["marshal_error"] != nil || sres["valid_update_refused"] != nil:
			r.Violation("C18", sig+":"+verdict+":cannot-be-shown-or-updated", fmt.Sprintf("file with %s was %s; under the configuration handed out the settings cannot be shown or a valid update is refused: %v %v", f.What, verdict, sres["marshal_error"], sres["valid_update_refused"]), cs, sres)
		case !kept:
			// a refused file is replaced by the defaults: the settings in force must be exactly the defaults
			if vals, ok := sres["values"].(map[string]any); ok {
				delete(vals, "proxy.upstream_default_https")
				want := map[string]any{}
				for k, v := range def {
					if k != "proxy.upstream_default_https" {
						want[k] = v
					}
				}
				if diff := cfgDiff(want, vals); len(diff) > 0 {
					r.Violation("C18", sig+":rejected-but-partly-in-force", fmt.Sprintf("the file was refused and reset, yet settings from it are in force: %s", strings.Join(diff, "; ")), cs, sres)
				}
			}
		}
	}
	r.Sample(map[string]any{"part": "files", "files": len(files), "classes": "complete-default, property-missing (every leaf and section), property-odd-value (null / other JSON type / empty / negative per leaf), unknown-key (every level), invalid-value, valid-changes, torn-file, not-a-configuration"})
}

func c18Run(b core.Batch, r *core.Recorder) {
	rig.QuietLogs()
	wd, _ := os.Getwd()
	var docs []c18doc
	mode := b.Str("part", "docs")
	if mode == "files" {
		c18RunFiles(b, r)
		return
	}
	switch mode {
	case "docs":
		docs = c18docs(b)
	case "writefault":
		// learn the file size from a default file, then sweep the failure point over it
		os.Remove("var/config.json")
		config.LoadOrDefault("var/config.json")
		fb, _ := os.ReadFile("var/config.json")
		stride := b.Int("stride", 16)
		for n := 0; n <= len(fb)+stride; n += stride {
			for _, d := range c18docs(core.Batch{Monitor: b.Monitor, Name: b.Name, Seed: b.Seed + int64(n), Args: map[string]any{"n": 1}})[:1] {
				d.Fsize = n
				d.Class = "valid-with-write-failure"
				docs = append(docs, d)
			}
		}
	}
	raw, _ := json.Marshal(docs)
	os.WriteFile("docs.json", raw, 0o644)
	os.Remove("results.jsonl")
	os.Remove("var/config.json")
	self, _ := os.Executable()
	from := 0
	startChecked := map[string]bool{}
	for from < len(docs) {
		cmdOut, stderr, _ := c18spawnRaw(wd, self, "cfg-apply", "docs.json", "results.jsonl", fmt.Sprint(from))
		_ = cmdOut
		results := c18readResults("results.jsonl")
		done := map[int]c18result{}
		started := -1
		ended := false
		for _, res := range results {
			switch res.Phase {
			case "done":
				done[res.I] = res
			case "start":
				if res.I > started {
					started = res.I
				}
			case "end":
				ended = true
			case "load-failed", "start-failed":
				r.Violation("C18", "C18:worker-cannot-start:"+res.Phase, fmt.Sprintf("after the previous updates the configuration on disk cannot be loaded / started: %s", res.Err), map[string]any{"id": fmt.Sprintf("d%d", res.I)}, nil)
				ended = true
			}
		}
		next := len(docs)
		if !ended {
			// the worker died while applying document `started`
			if _, ok := done[started]; !ok && started >= from {
				d := docs[started]
				kind, frame := core.ClassifyAbort(stderr)
				r.Eval(1)
				r.Violation("C18", "C18:process-died:"+c18class(d), fmt.Sprintf("applying the update %v killed the process: %s (%s)", d.Doc, core.Trunc(kind, 150), frame),
					map[string]any{"id": fmt.Sprintf("d%d", started), "document": d}, core.Trunc(stderr, 5000))
				next = started + 1
				// the file may hold whatever was persisted before the crash; start the next worker from defaults
				os.Remove("var/config.json")
			} else {
				r.Inconclusive("worker ended without an end marker: " + core.Trunc(stderr, 300))
			}
		}
		for i := from; i < next && i < len(docs); i++ {
			res, ok := done[i]
			if !ok {
				continue
			}
			d := docs[i]
			id := fmt.Sprintf("d%d", i)
			r.Eval(1)
			r.Nontrivial(d.Class, fmt.Sprint(d.Doc), d.Fsize)
			cs := map[string]any{"id": id, "document": d, "accepted": res.Accepted, "error": res.Err}
			wit := map[string]any{"before": res.S0, "after": res.S1, "notifications": res.EventLog}
			if !res.Accepted {
				r.Count("rejected_updates_checked", 1)
				if diff := c18snapDiff(res.S0, res.S1, true); len(diff) > 0 {
					what := "values"
					switch {
					case len(cfgDiff(res.S0.Values, res.S1.Values)) > 0:
						what = "settings-changed"
					case res.S0.MaxSize != res.S1.MaxSize || res.S0.MemCap != res.S1.MemCap || res.S0.Interval != res.S1.Interval:
						what = "component-followed-rejected-value"
					case res.S0.FileSHA != res.S1.FileSHA:
						what = "file-changed"
					case res.S0.Events != res.S1.Events:
						what = "listeners-notified"
					case res.S0.Restart != res.S1.Restart:
						what = "restart-required-raised"
					}
					sig := "C18:rejected-but-" + what + ":" + c18class(d)
					if d.Fsize >= 0 {
						sig = "C18:write-failure-but-" + what
					}
					r.Violation("C18", sig, fmt.Sprintf("the update %v was rejected (%s), yet: %s", d.Doc, core.Trunc(res.Err, 100), strings.Join(diff, "; ")), cs, wit)
				}
				continue
			}
			r.Count("accepted_updates_checked", 1)
			if d.Fsize >= 0 && d.Fsize < res.S1.FileLen {
				// the write cannot have succeeded in full, yet success was reported
				r.Violation("C18", "C18:write-failure-reported-as-success", fmt.Sprintf("with the file size limited to %d bytes the update reported success", d.Fsize), cs, wit)
			}
			addr := c18addressed(d)
			for _, line := range cfgDiff(res.S0.Values, res.S1.Values) {
				prop := strings.SplitN(line, ":", 2)[0]
				if !addr[prop] {
					r.Violation("C18", "C18:accepted-update-changed-other-setting", fmt.Sprintf("the update %v also changed %s", d.Doc, line), cs, wit)
				}
			}
			// ... also in the file: only the addressed settings may differ between the file before and after
			if f0, f1 := c18flatJSON(res.S0.File), c18flatJSON(res.S1.File); f0 != nil && f1 != nil {
				for _, line := range cfgDiff(f0, f1) {
					prop := strings.SplitN(line, ":", 2)[0]
					if !addr[prop] {
						r.Violation("C18", "C18:accepted-update-changed-other-setting-in-file", fmt.Sprintf("the update %v also changed %s in the configuration file", d.Doc, line), cs, wit)
					}
				}
			}
			// the file must load to the same settings in a fresh process, and be startable
			key := res.S1.FileSHA
			if startChecked[key] || len(startChecked) >= b.Int("start_checks", 40) {
				continue
			}
			startChecked[key] = true
			save, _ := os.ReadFile("var/config.json")
			os.MkdirAll("startcheck/var", 0o755)
			os.WriteFile("startcheck/var/config.json", []byte(res.S1.File), 0o644)
			if res.S1.File == "" {
				os.WriteFile("startcheck/var/config.json", save, 0o644)
			}
			out, serr, _ := c18spawnRaw(wd+"/startcheck", self, "cfg-start")
			var sres map[string]any
			dec := json.NewDecoder(strings.NewReader(out))
			dec.UseNumber()
			dec.Decode(&sres)
			r.Count("start_checks", 1)
			switch {
			case sres == nil:
				kind, frame := core.ClassifyAbort(serr)
				r.Violation("C18", "C18:accepted-unworkable:"+c18class(d)+":process-died", fmt.Sprintf("the accepted configuration kills a fresh process that starts a cache and proxy under it: %s (%s)", core.Trunc(kind, 150), frame), cs, core.Trunc(serr, 4000))
			case sres["panic"] != nil || sres["error"] != nil:
				r.Violation("C18", "C18:accepted-unworkable:"+c18class(d), fmt.Sprintf("a fresh process cannot start under the accepted configuration: %v %v", sres["panic"], sres["error"]), cs, sres)
			case func() bool { l, _ := sres["server_panics"].([]any); return len(l) > 0 }():
				r.Violation("C18", "C18:accepted-unworkable:"+c18class(d)+":request-panics", "under the accepted configuration the first request panics in the proxy", cs, sres)
			case fmt.Sprint(sres["err1"]) != "<nil>":
				r.Violation("C18", "C18:accepted-unworkable:"+c18class(d)+":request-unanswered", fmt.Sprintf("under the accepted configuration a request is not answered: %v", sres["err1"]), cs, sres)
			case sres["marshal_error"] != nil || sres["valid_update_refused"] != nil:
				r.Violation("C18", "C18:accepted-unworkable:"+c18class(d)+":cannot-be-shown-or-updated", fmt.Sprintf("under the accepted configuration the settings cannot be shown or a valid update is refused: %v %v", sres["marshal_error"], sres["valid_update_refused"]), cs, sres)
			default:
				if vals, ok := sres["values"].(map[string]any); ok {
					delete(vals, "proxy.upstream_default_https") // overwritten by the rig itself in the worker
					want := map[string]any{}
					for k, v := range res.S1.Values {
						if k != "proxy.upstream_default_https" {
							want[k] = v
						}
					}
					if diff := cfgDiff(want, vals); len(diff) > 0 {
						// UpstreamDefaultHttps is overwritten by the rig in both processes; anything else is a difference
						r.Violation("C18", "C18:next-start-loads-other-settings", fmt.Sprintf("the accepted update is not what the next start loads: %s", strings.Join(diff, "; ")), cs, nil)
					}
				}
			}
		}
		from = next
	}
	r.Sample(map[string]any{"part": mode, "documents": len(docs), "first": docs[0], "classes": "valid, invalid-value, ill-typed, valid-plus-failing, unknown-key, wrong-shape, boundary, valid-with-write-failure"})
}

func c18flatJSON(text string) map[string]any {
	var m map[string]any
	dec := json.NewDecoder(strings.NewReader(text))
	dec.UseNumber()
	if text == "" || dec.Decode(&m) != nil {
		return nil
	}
	out := map[string]any{}
	var rec func(m map[string]any, prefix string)
	rec = func(m map[string]any, prefix string) {
		for k, v := range m {
			if mm, ok := v.(map[string]any); ok {
				rec(mm, prefix+k+".")
			} else {
				out[prefix+k] = fmt.Sprint(v)
			}
		}
	}
	rec(m, "")
	return out
}

func c18spawnRaw(dir, self string, args ...string) (string, string, error) {
	cmd := execCommand(self, append([]string{"aux"}, args...)...)
	cmd.Dir = dir
	cmd.Env = append(os.Environ(), "GORACE=")
	var stderr, stdout strings.Builder
	cmd.Stderr, cmd.Stdout = &stderr, &stdout
	err := cmd.Run()
	return stdout.String(), stderr.String(), err
}

func c18Plan(tier string, seed int64) []core.Batch {
	n, stride, sc := 40, 24, 40
	if tier == "thorough" {
		n, stride, sc = 1500, 1, 600
	}
	return []core.Batch{
		{Name: "docs-a", TimeoutS: 1800, Args: map[string]any{"part": "docs", "n": n, "start_checks": sc}},
		{Name: "docs-b", TimeoutS: 1800, Args: map[string]any{"part": "docs", "n": n, "start_checks": sc}},
		{Name: "writefault", TimeoutS: 1800, Args: map[string]any{"part": "writefault", "stride": stride}},
		{Name: "files", TimeoutS: 1800, Args: map[string]any{"part": "files", "valid_files": n / 4}},
	}
}

func init() {
	core.RegisterAux("cfg-apply", auxCfgApply)
	core.RegisterAux("cfg-start", auxCfgStart)
	core.Register(&core.Monitor{
		ID:    "C18",
		Level: "fault_enumeration",
		Rule: "update documents of classes valid (random subsets of 10 settings), invalid-value (13 forms incl. cache.type in another letter case), ill-typed (10 forms), valid-plus-failing (6 forms; Go's map order decides what is staged first, so they are repeated), unknown-key / empty / wrong-shape (8 forms), one setting twice under names that differ in letter case (4 forms), boundary (12 forms: lock_shards 0/-3/1, budget 0/100, 1B, 1ns, cache type switches, negative backups, default_max_age 0/-1h) applied one after the other to a live worker process (real cache + janitor + proxy, a recorder subscribed to every property); " +
			"snapshots before/after each (all effective values, file bytes, limits the cache enforces, janitor interval, notifications, the restart-required state). Accepted configurations (distinct files, capped) are loaded by a fresh process which starts a cache + proxy and serves two requests. Write failures: RLIMIT_FSIZE = n for n swept over the file length. Configuration files: the default document with every leaf / section removed in turn, every leaf set to null / another JSON type / empty / negative, unknown keys at every level, invalid values, valid changes, torn and non-configuration files, each loaded by a fresh process that must then start, serve two requests, show its settings and accept one valid update (a refused file must leave exactly the defaults in force). Non-trivial = distinct (class, document, failure point).",
		Assumptions: []string{"a 5xx answer under an accepted configuration is C09's subject; only panics, process death and unanswered requests make a configuration unworkable here", "settling time of 25 ms for asynchronous listeners before the after-snapshot"},
		Plan:        c18Plan,
		Run:         c18Run,
		Parallel:    3,
		Floors:      map[string]map[string]int64{"quick": {"rejected_updates_checked": 100, "accepted_updates_checked": 100, "start_checks": 20, "files_loaded_by_a_fresh_process": 150, "files_accepted": 10, "files_rejected_and_reset": 50}, "thorough": {"rejected_updates_checked": 5000, "accepted_updates_checked": 5000, "start_checks": 200, "files_loaded_by_a_fresh_process": 300, "files_accepted": 50, "files_rejected_and_reset": 50}},
	})
}
