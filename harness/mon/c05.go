package mon

// C05 — concurrent identical requests share one origin fetch; each gets a full answer.
//
// Deterministic overlap: the leader is sent first; the harness waits until the hook
// fetch.dedup.enter has counted it and the origin holds its request behind a gate, sends
// the other N-1, waits until the hook has counted N entries for that key, and only then
// releases the origin. "All N were in flight together" is an observed fact, not a sleep.

import (
	"fmt"
	"net/http"
	"strings"
	"sync"
	"time"

	"reservoir/cache"
	"reservoir/utils/verifhook"
	"verifharness/core"
	"verifharness/rig"
)

type c05world struct {
	mu      sync.Mutex
	enters  map[string]int // dedup entries per key hex
	res     map[string]*c05res
	afterDo map[string]func()
}

type c05res struct {
	id          string
	resNo       int
	ver         int
	noStore     bool
	pastExpires bool
	history     string        // non-empty: answer this (uncacheable) way instead
	gate        chan struct{} // closed = open
	arrived     chan struct{} // first request reached the origin
	arrOnce     sync.Once
	requests    int
}

func (w *c05world) enterCount(key string) int {
	w.mu.Lock()
	defer w.mu.Unlock()
	return w.enters[key]
}

func (w *c05world) handler(rw http.ResponseWriter, q *http.Request, rec *rig.OriginReq) {
	id := strings.Trim(q.URL.Path, "/")
	w.mu.Lock()
	res := w.res[id]
	if res != nil {
		res.requests++
	}
	w.mu.Unlock()
	if res == nil {
		rw.WriteHeader(599)
		return
	}
	rec.SetNote(id)
	res.arrOnce.Do(func() { close(res.arrived) })
	select {
	case <-res.gate:
	case <-time.After(60 * time.Second):
		rec.AppendNote(";gate-timeout")
	}
	w.mu.Lock()
	ver, noStore, history := res.ver, res.noStore, res.history
	w.mu.Unlock()
	switch history {
	case "404", "503":
		code := map[string]int{"404": 404, "503": 503}[history]
		rw.Header().Set("Content-Type", "text/plain")
		rw.WriteHeader(code)
		fmt.Fprintf(rw, "not there yet (%d)", code)
		return
	case "no-store":
		rig.ServeBody(rw, res.resNo, 99, 20000, map[string]string{"Cache-Control": "no-store"})
		return
	}
	if inm := q.Header.Get("If-None-Match"); inm != "" && inm == rig.ETag(res.resNo, ver) {
		rw.Header().Set("ETag", inm)
		rw.WriteHeader(304)
		return
	}
	cc := "max-age=3600"
	if noStore {
		cc = "no-store"
	}
	hd := map[string]string{"Cache-Control": cc}
	if res.pastExpires {
		hd = map[string]string{"Expires": "Thu, 01 Jan 1998 00:00:00 GMT"}
	}
	rig.ServeBody(rw, res.resNo, ver, 20000, hd)
}

func waitFor(cond func() bool, d time.Duration) bool {
	deadline := time.Now().Add(d)
	for time.Now().Before(deadline) {
		if cond() {
			return true
		}
		time.Sleep(200 * time.Microsecond)
	}
	return cond()
}

type c05burst struct {
	ID      string `json:"id"`
	N       int    `json:"n"`
	State   string `json:"state"`   // cold | fresh | stale-304 | stale-200
	Outcome string `json:"outcome"` // cacheable | uncacheable
	Perturb string `json:"perturbation"`
	Who     int    `json:"perturbed_client"` // 0 = leader
	Mode    string `json:"transport"`
	Backend string `json:"backend"`
	Late    bool   `json:"late_joiner_after_hangup"`
	Tiny    bool   `json:"cache_limit_below_body_size"`
	// ZeroLife: the stored entry has no freshness lifetime left the moment it is stored:
	// "default-1ns" = force_default_max_age with default_max_age 1 ns; "past-expires" = ignore_cache_control (every
	// 200 GET is stored) with an origin Expires in the past
	ZeroLife string `json:"zero_lifetime,omitempty"`
	// History: what the same URL answered once before it became the cacheable resource of this burst:
	// "" | "404" | "503" | "no-store"
	History string `json:"earlier_answer_for_this_url,omitempty"`
	// HoldS: the origin keeps the coalesced clients waiting this many seconds for its answer (a slow origin is not a
	// reason to fetch more than once or to give up)
	HoldS int `json:"origin_answers_after_seconds,omitempty"`
}

func c05one(r *core.Recorder, w *c05world, p *rig.ProxyRig, o *rig.Origin, mode rig.Mode, bu c05burst, resNo int) {
	r.Eval(1)
	if bu.Tiny {
		p = rig.StartProxy(rig.ProxyOpts{Backend: bu.Backend, Max: 8000})
		defer p.Close()
	}
	switch bu.ZeroLife {
	case "default-1ns":
		p = rig.StartProxy(rig.ProxyOpts{Backend: bu.Backend, ForceDefault: true, DefaultMaxAge: time.Nanosecond})
		defer p.Close()
	case "past-expires":
		p = rig.StartProxy(rig.ProxyOpts{Backend: bu.Backend, IgnoreCC: true})
		defer p.Close()
	}
	res := &c05res{id: bu.ID, resNo: resNo, ver: 1, noStore: bu.Outcome == "uncacheable", pastExpires: bu.ZeroLife == "past-expires", gate: make(chan struct{}), arrived: make(chan struct{})}
	w.mu.Lock()
	w.res[bu.ID] = res
	w.mu.Unlock()
	hr, _ := http.NewRequest("GET", "http://"+o.Addr+"/"+bu.ID, nil)
	key := cache.MakeFromRequest(hr)
	target := "/" + bu.ID

	if bu.History != "" {
		// the URL's earlier life: one request that got an answer which cannot be stored
		w.mu.Lock()
		res.history = bu.History
		w.mu.Unlock()
		close(res.gate)
		rig.Do(p, mode, o.Addr, rig.Req{Target: target})
		w.mu.Lock()
		res.history = ""
		w.mu.Unlock()
		res.gate = make(chan struct{})
		res.arrived = make(chan struct{})
		res.arrOnce = sync.Once{}
	}
	// preparation for fresh / stale states
	if bu.State != "cold" {
		close(res.gate)
		pre := rig.Do(p, mode, o.Addr, rig.Req{Target: target})
		if pre.Err != nil || pre.Status != 200 {
			r.NotJudged("preparation-failed")
			return
		}
		res.gate = make(chan struct{})
		res.arrived = make(chan struct{})
		res.arrOnce = sync.Once{}
		if strings.HasPrefix(bu.State, "stale") {
			p.P.VerifCacheSetExpires(key, time.Now().Add(-time.Hour))
			if bu.State == "stale-200" {
				w.mu.Lock()
				res.ver = 2
				w.mu.Unlock()
			}
		}
	}
	wantVer := 1
	if bu.State == "stale-200" {
		wantVer = 2
	}
	base := w.enterCount(key.Hex)
	seqBefore := o.LastSeq()
	if bu.Perturb == "delete-before-followers-reget" {
		w.mu.Lock()
		w.afterDo[key.Hex] = func() { p.P.VerifCacheDelete(key) }
		w.mu.Unlock()
		defer func() {
			w.mu.Lock()
			delete(w.afterDo, key.Hex)
			w.mu.Unlock()
		}()
	}

	resps := make([]*rig.Resp, bu.N, bu.N+1)
	var wg sync.WaitGroup
	send := func(i int) {
		q := rig.Req{Target: target, Timeout: 40 * time.Second}
		if i == bu.Who {
			switch bu.Perturb {
			case "disconnect-before-release":
				q.CloseAfterSend = 30 * time.Millisecond
			case "disconnect-after-first-byte":
				q.AbortAfterBody = 1
			case "slow-reader":
				q.SlowReadEvery, q.SlowReadSleep = 1024, 8*time.Millisecond
			}
		}
		wg.Add(1)
		go func() {
			defer wg.Done()
			resps[i] = rig.Do(p, mode, o.Addr, q)
		}()
	}
	send(0)
	inflight := true
	if bu.State == "fresh" {
		// nothing blocks on a fresh entry: requests simply overlap as they can
		inflight = waitFor(func() bool { return w.enterCount(key.Hex) >= base+1 }, 10*time.Second)
	} else {
		ok1 := waitFor(func() bool { return w.enterCount(key.Hex) >= base+1 }, 10*time.Second)
		select {
		case <-res.arrived:
		case <-time.After(10 * time.Second):
			ok1 = false
		}
		inflight = ok1
	}
	for i := 1; i < bu.N; i++ {
		send(i)
	}
	allIn := waitFor(func() bool { return w.enterCount(key.Hex) >= base+bu.N }, 10*time.Second)
	if bu.Perturb == "disconnect-before-release" {
		time.Sleep(60 * time.Millisecond) // let the perturbed client hang up while the origin still holds the fetch
		if bu.Late {
			// a late joiner: an identical GET arriving after the hang-up, the fetch still in flight
			resps = resps[:bu.N+1] // (capacity reserved above: the other goroutines' slots stay where they are)
			send(bu.N)
			waitFor(func() bool { return w.enterCount(key.Hex) >= base+bu.N+1 }, 10*time.Second)
		}
	}
	if bu.HoldS > 0 {
		time.Sleep(time.Duration(bu.HoldS) * time.Second)
	}
	// The hook counts a request when it enters dedupFetch, a few instructions before it joins the flight: give a
	// request that lost its CPU right there a moment to join before the origin answers.
	time.Sleep(10 * time.Millisecond)
	close(res.gate)
	wg.Wait()
	if !inflight || !allIn {
		r.NotJudged("overlap-not-established")
		return
	}
	r.Count("bursts_with_confirmed_overlap", 1)
	r.Count("coalesced_requests_observed", int64(bu.N))
	r.Nontrivial(bu.N, bu.State, bu.Outcome, bu.Perturb, bu.Who, bu.Mode, bu.Backend, bu.ZeroLife, bu.History, bu.HoldS)

	var mine []rig.OriginReq
	for _, g := range o.Since(seqBefore) {
		if strings.HasPrefix(g.Note, bu.ID) {
			mine = append(mine, g)
		}
	}
	cs := map[string]any{"id": bu.ID, "burst": bu}
	type cr struct {
		Client  int    `json:"client"`
		Status  int    `json:"status"`
		Err     string `json:"err,omitempty"`
		Aborted bool   `json:"aborted_by_itself,omitempty"`
		Body    string `json:"body"`
		XCache  string `json:"x_cache"`
	}
	var crs []cr
	for i, resp := range resps {
		c := cr{Client: i, Status: resp.Status, Aborted: resp.Aborted, XCache: resp.Get("X-Cache")}
		if resp.Err != nil {
			c.Err = resp.Err.Error()
		}
		c.Body = rig.CheckFull(resp.Body, 20000).String()
		crs = append(crs, c)
	}
	wit := map[string]any{"clients": crs, "origin_requests": len(mine), "origin_log": mine}
	role := func(i int) string {
		if i == 0 {
			return "leader"
		}
		return "follower"
	}
	perturbedRole := role(bu.Who)
	if bu.Perturb == "none" || bu.Perturb == "delete-before-followers-reget" {
		perturbedRole = "nobody"
	}
	// ---- every client that did not perturb itself must have a complete, correct answer
	for i, resp := range resps {
		if i == bu.Who && (bu.Perturb == "disconnect-before-release" || bu.Perturb == "disconnect-after-first-byte") {
			continue
		}
		bv := rig.CheckFull(resp.Body, 20000)
		if resp.Err != nil || resp.Status != 200 || bv.Kind != "complete" || bv.R != resNo || bv.V != wantVer {
			sig := fmt.Sprintf("C05:client-without-full-answer:%s:%s:%s-perturbed:%s", bu.State, bu.Outcome, perturbedRole, bu.Perturb)
			if bu.History != "" {
				sig += ":after-" + bu.History
			}
			if bu.HoldS > 0 {
				sig += ":slow-origin"
			}
			r.Violation("C05", sig, fmt.Sprintf("client %d (%s) of a burst of %d got status %d err=%v body=%s; expected 200 with the complete v%d", i, role(i), bu.N, resp.Status, resp.Err, bv, wantVer), cs, wit)
			break
		}
	}
	// ---- origin fetch count
	n := len(mine)
	lo, hi := 1, 1
	switch {
	case bu.Outcome == "uncacheable":
		lo, hi = bu.N, bu.N+1
		if bu.State != "cold" {
			lo, hi = 0, bu.N+1 // a previously stored state does not exist for uncacheable resources; not used
		}
	case bu.State == "fresh":
		lo, hi = 0, 0
	}
	if bu.Perturb == "delete-before-followers-reget" {
		hi = bu.N + 1 // followers that find the entry gone fetch for themselves
	}
	if strings.HasPrefix(bu.Perturb, "disconnect") && bu.Outcome == "uncacheable" {
		lo-- // the departed client does not fetch for itself
	}
	if bu.Late {
		// one more client arrived after the hang-up while the fetch was still held: it joins the same fetch
		if bu.Outcome == "uncacheable" {
			hi++
		}
	}
	if bu.Outcome == "uncacheable" {
		// The statement asks for a response of its own for every client, it does not limit the origin requests of an
		// uncacheable outcome: a request that joins after the flight has ended starts a flight of its own (one more
		// request per such flight; seen as N+2 under heavy machine load). Only the lower bound is judged.
		r.Count("uncacheable_bursts_origin_requests_above_n_plus_1", map[bool]int64{true: 1, false: 0}[n > hi])
		hi = n
	}
	if n < lo || n > hi {
		r.Violation("C05", fmt.Sprintf("C05:origin-fetch-count:%s:%s:%s%s%s", bu.State, bu.Outcome, bu.Perturb, map[bool]string{true: ":after-" + bu.History, false: ""}[bu.History != ""], map[bool]string{true: ":slow-origin", false: ""}[bu.HoldS > 0]), fmt.Sprintf("%d overlapping identical GETs (%s, %s, %s) caused %d origin requests; expected %d..%d", bu.N, bu.State, bu.Outcome, bu.Perturb, n, lo, hi), cs, wit)
	}
	if bu.Outcome == "cacheable" && bu.Perturb == "none" && bu.ZeroLife == "" && !bu.Tiny {
		seq2 := o.LastSeq()
		after := rig.Do(p, mode, o.Addr, rig.Req{Target: target})
		extra := 0
		for _, g := range o.Since(seq2) {
			if strings.HasPrefix(g.Note, bu.ID) {
				extra++
			}
		}
		if after.Err == nil && extra > 0 {
			r.Violation("C05", fmt.Sprintf("C05:not-served-from-the-store-after-the-burst:%s%s", bu.State, map[bool]string{true: ":after-" + bu.History, false: ""}[bu.History != ""]),
				fmt.Sprintf("after %d coalesced GETs stored the cacheable answer, one more GET caused %d further origin requests", bu.N, extra), cs, wit)
		}
	}
	if bu.State == "stale-304" || bu.State == "stale-200" {
		cond := 0
		for _, g := range mine {
			if g.Header.Get("If-None-Match") != "" {
				cond++
			}
		}
		if cond > 1 {
			r.Violation("C05", "C05:multiple-revalidations:"+bu.Perturb, fmt.Sprintf("%d conditional requests reached the origin for one stale entry", cond), cs, wit)
		}
	}
	if bu.Perturb == "slow-reader" {
		slow := resps[bu.Who]
		for i, resp := range resps {
			if i != bu.Who && resp.Ret > slow.Ret && slow.Err == nil {
				r.Count("others_finished_after_slow_reader", 1)
			}
		}
	}
}

func c05Run(b core.Batch, r *core.Recorder) {
	rig.QuietLogs()
	w := &c05world{enters: map[string]int{}, res: map[string]*c05res{}, afterDo: map[string]func(){}}
	verifhook.Set("fetch.dedup.enter", func(arg any) {
		w.mu.Lock()
		w.enters[arg.(string)]++
		w.mu.Unlock()
	})
	verifhook.Set("fetch.dedup.afterDo", func(arg any) {
		w.mu.Lock()
		f := w.afterDo[arg.(string)]
		w.mu.Unlock()
		if f != nil {
			f()
		}
	})
	o := rig.StartOrigin(w.handler)
	defer o.Close()
	backend := b.Str("backend", "memory")
	mode := rig.Mode(b.Str("transport", "plain"))
	p := rig.StartProxy(rig.ProxyOpts{Backend: backend})
	defer p.Close()
	states := []string{"cold", "fresh", "stale-304", "stale-200"}
	perturbs := []string{"none", "none", "disconnect-before-release", "disconnect-after-first-byte", "slow-reader", "delete-before-followers-reget"}
	ns := []int{2, 3, 8}
	if b.Tier == "thorough" {
		ns = []int{2, 3, 8, 32}
	}
	rng := b.Rand("c05")
	i := 0
	emit := func(bu c05burst) {
		i++
		bu.ID = fmt.Sprintf("%s-%s-%d", backend, mode, i)
		bu.Mode, bu.Backend = string(mode), backend
		if !r.Case(bu.ID, bu) {
			return
		}
		c05one(r, w, p, o, mode, bu, i%60000)
		if i <= 2 {
			r.Sample(bu)
		}
	}
	// systematic part: every state x perturbation x leader/follower target, N cycling
	for _, st := range states {
		for _, pe := range perturbs {
			for _, who := range []int{0, 1} {
				if (pe == "none" || pe == "delete-before-followers-reget") && who == 1 {
					continue
				}
				n := ns[i%len(ns)]
				emit(c05burst{N: n, State: st, Outcome: "cacheable", Perturb: pe, Who: min(who, n-1)})
			}
		}
	}
	for _, pe := range []string{"none", "disconnect-before-release", "slow-reader"} {
		for _, who := range []int{0, 1} {
			emit(c05burst{N: ns[i%len(ns)], State: "cold", Outcome: "uncacheable", Perturb: pe, Who: who})
		}
	}
	for _, st := range states {
		if st == "fresh" {
			continue
		}
		for _, who := range []int{0, 1} {
			emit(c05burst{N: 3, State: st, Outcome: "cacheable", Perturb: "disconnect-before-release", Who: who, Late: true})
		}
	}
	// the same with a cache whose size limit is below the body size (the object cannot stay cached for long)
	for _, n := range []int{2, 6} {
		emit(c05burst{N: n, State: "cold", Outcome: "cacheable", Perturb: "none", Tiny: true})
	}
	// stored, but with no freshness lifetime left: still one fetch (one revalidation) for the whole burst
	for _, zl := range []string{"default-1ns", "past-expires"} {
		for _, st := range []string{"cold", "stale-304"} {
			emit(c05burst{N: ns[i%len(ns)], State: st, Outcome: "cacheable", Perturb: "none", ZeroLife: zl})
		}
	}
	// a slow origin: the answer comes after 11 s (thorough: also 31 s) with all clients waiting on the one fetch
	holds := []int{11}
	if b.Tier == "thorough" {
		holds = []int{11, 31}
	}
	for _, h := range holds {
		emit(c05burst{N: 3, State: "cold", Outcome: "cacheable", Perturb: "none", HoldS: h})
	}
	// a URL that once answered something unstorable and has become cacheable since
	for _, hist := range []string{"404", "503", "no-store"} {
		emit(c05burst{N: ns[i%len(ns)], State: "cold", Outcome: "cacheable", Perturb: "none", History: hist})
	}
	for k := 0; k < b.Int("random", 10); k++ {
		n := ns[rng.IntN(len(ns))]
		out := "cacheable"
		st := states[rng.IntN(len(states))]
		if rng.IntN(5) == 0 {
			out, st = "uncacheable", "cold"
		}
		pe := perturbs[rng.IntN(len(perturbs))]
		if out == "uncacheable" && pe == "delete-before-followers-reget" {
			pe = "none"
		}
		emit(c05burst{N: n, State: st, Outcome: out, Perturb: pe, Who: rng.IntN(n)})
	}
}

func c05Plan(tier string, seed int64) []core.Batch {
	rnd := 10
	if tier == "thorough" {
		rnd = 1500
	}
	var bs []core.Batch
	for _, be := range []string{"memory", "file"} {
		for _, tr := range []string{"plain", "tunnel"} {
			bs = append(bs, core.Batch{Name: be + "-" + tr, Race: true, TimeoutS: 1800, Args: map[string]any{"backend": be, "transport": tr, "random": rnd}})
		}
	}
	return bs
}

func init() {
	core.Register(&core.Monitor{
		ID:    "C05",
		Level: "exploration",
		Rule: "bursts of N in {2,3,8(,32)} identical GETs on a key in state {cold, fresh, stale answered 304, stale answered 200} with outcome {cacheable, no-store}, perturbation {none, one client (leader or follower) hangs up before the origin answers, hangs up after the first body byte, reads 1 KiB per 8 ms, entry deleted in the follower hand-over window} on both transports and backends (race build): every state x perturbation x leader/follower combination once plus seeded random bursts. " +
			"Overlap is established by the dedup-enter hook count and an origin gate before the origin is released; bursts where that could not be established are not judged. Oracles: origin request count (1 / 1 conditional / 0; at least N (N-1 after a hang-up) when uncacheable), every non-perturbing client gets 200 with the complete correct version. Non-trivial = distinct burst shape with confirmed overlap.",
		Assumptions: []string{"a departing client's fetch may be repeated once (count tolerance +1 on disconnect bursts)", "after the hand-over deletion followers may fetch for themselves"},
		Plan:        c05Plan,
		Run:         c05Run,
		Parallel:    4,
		Floors:      map[string]map[string]int64{"quick": {"bursts_with_confirmed_overlap": 100}, "thorough": {"bursts_with_confirmed_overlap": 5000}},
	})
}
