package mon

// C06 — revalidation uses stored validators; 304 and 200 update the entry correctly.
//
// Model-based history monitor. Per resource a scripted history over {client GET, client GET with
// conditional headers carrying sentinels, force-expire the entry, origin changes content, origin
// answers the next request with 404 / 500}. The harness model tracks what the proxy must hold; every
// request the origin receives and every client response is compared with the model.

import (
	"fmt"
	"net/http"
	"strings"
	"sync"
	"time"

	"reservoir/cache"
	"verifharness/core"
	"verifharness/rig"
)

var c06alphabet = []string{"G", "Gc", "X", "C", "E4", "E5", "Gd", "Gh"}

// validator kinds of a resource
// "coarse-etag": the entity tag names a generation and stays the same while content and Last-Modified change; the
// "both-304-says-expired": the origin's 304 itself carries max-age=0 and a past Expires (the renewal is by the
// configured default all the same). origin validates by date only (it ignores If-None-Match), so a changed representation comes back as a 200 that
// carries the stored tag. "both-bare304" / "etag-bare304": the origin's 304 carries no validator header at all.
var c06kinds = []string{"both", "etag", "lastmod", "none", "weak", "lastmod-rfc850", "lastmod-asctime", "coarse-etag", "both-bare304", "etag-bare304", "both-304-says-expired"}

type c06resState struct {
	kind    string
	res     int
	cur     int // current version at the origin
	pending int // status to answer the next request with (0 = normal)
	seen    int // origin requests received since the scripted error was armed
}

type c06world struct {
	mu  sync.Mutex
	res map[string]*c06resState
}

func c06etag(kind string, res, v int) string {
	switch kind {
	case "both", "etag", "both-bare304", "etag-bare304", "both-304-says-expired":
		return rig.ETag(res, v)
	case "coarse-etag":
		return rig.ETag(res, 0)
	case "weak":
		return "W/" + rig.ETag(res, v)
	}
	return ""
}

func c06lastmod(kind string, v int) string {
	switch kind {
	case "both", "lastmod", "coarse-etag", "both-bare304", "both-304-says-expired":
		return rig.LastMod(v)
	case "lastmod-rfc850", "lastmod-asctime":
		// the obsolete but valid date forms an origin may still write
		t, _ := http.ParseTime(rig.LastMod(v))
		if kind == "lastmod-rfc850" {
			return t.UTC().Format("Monday, 02-Jan-06 15:04:05 GMT")
		}
		return t.UTC().Format(time.ANSIC)
	}
	return ""
}

// c06sameDate: two HTTP dates denote the same instant (the proxy may re-render the stored date in IMF form).
func c06sameDate(a, b string) bool {
	ta, ea := http.ParseTime(a)
	tb, eb := http.ParseTime(b)
	return ea == nil && eb == nil && ta.Equal(tb)
}

func (w *c06world) handler(rw http.ResponseWriter, q *http.Request, rec *rig.OriginReq) {
	id := strings.Trim(q.URL.Path, "/")
	w.mu.Lock()
	st := w.res[id]
	if st == nil {
		w.mu.Unlock()
		rw.WriteHeader(599)
		return
	}
	pending := st.pending // stays in force for every origin request of the current client exchange
	cur, kind, res := st.cur, st.kind, st.res
	if pending != 0 {
		st.seen++
	}
	nth := st.seen
	w.mu.Unlock()
	rec.SetNote(id)
	if pending != 0 && nth > 1 && (q.Header.Get("If-None-Match") != "" || q.Header.Get("If-Modified-Since") != "") && !strings.Contains(q.Header.Get("If-None-Match")+q.Header.Get("If-Modified-Since"), "sentinel") {
		// a second request of the same exchange that still carries validators although the revalidation has been
		// answered: a real origin answers a matching validator with 304 (the client, who asked unconditionally, must
		// never see that)
		rw.WriteHeader(304)
		return
	}
	if pending != 0 {
		rw.Header().Set("Content-Type", "text/plain")
		rw.Header().Set("X-Origin-Error", fmt.Sprint(pending))
		rw.WriteHeader(pending)
		fmt.Fprintf(rw, "origin error %d for %s", pending, id)
		return
	}
	et, lm := c06etag(kind, res, cur), c06lastmod(kind, cur)
	notMod := false
	if inm := q.Header.Get("If-None-Match"); inm != "" && kind != "coarse-etag" {
		notMod = et != "" && inm == et
	} else if ims := q.Header.Get("If-Modified-Since"); ims != "" {
		notMod = lm != "" && c06sameDate(ims, lm)
	}
	if notMod {
		if et != "" && !strings.HasSuffix(kind, "-bare304") {
			rw.Header().Set("ETag", et)
		}
		if kind == "both-304-says-expired" {
			rw.Header().Set("Cache-Control", "max-age=0")
			rw.Header().Set("Expires", "Thu, 01 Jan 1998 00:00:00 GMT")
		}
		rw.WriteHeader(304)
		return
	}
	h := rw.Header()
	if et != "" {
		h.Set("ETag", et)
	}
	if lm != "" {
		h.Set("Last-Modified", lm)
	}
	h.Set("Content-Type", rig.CType(res, cur))
	h.Set("Cache-Control", "max-age=3600")
	h.Set("Content-Length", "300")
	rw.WriteHeader(200)
	rw.Write(rig.Body(res, cur, 300))
}

type c06step struct {
	Op       string           `json:"op"`
	Status   int              `json:"status,omitempty"`
	XCache   string           `json:"x_cache,omitempty"`
	BodyV    int              `json:"body_version,omitempty"`
	Upstream []map[string]any `json:"origin_received,omitempty"`
	Expect   string           `json:"model_expects,omitempty"`
}

const (
	c06sentinelTag  = "\"client-sentinel-tag\""
	c06sentinelDate = "Tue, 15 Nov 1994 08:12:31 GMT"
	c06sentinel850  = "Tuesday, 15-Nov-94 08:12:31 GMT"
)

func c06hist(r *core.Recorder, p *rig.ProxyRig, o *rig.Origin, w *c06world, mode rig.Mode, backend, kind, id string, resNo int, ops []string) {
	r.Eval(1)
	st := &c06resState{kind: kind, res: resNo, cur: 1}
	w.mu.Lock()
	w.res[id] = st
	w.mu.Unlock()
	hr, _ := http.NewRequest("GET", "http://"+o.Addr+"/"+id, nil)
	key := cache.MakeFromRequest(hr)

	// model
	stored := 0 // version the proxy must hold (0 = nothing)
	stale := false
	renewedBy304 := false // the entry's lifetime was just renewed by a 304 and nothing has made it stale since
	replacedBelow := 0    // versions < this have been replaced by a 200 and must never be served again
	var trace []c06step
	cs := map[string]any{"id": id, "kind": kind, "ops": strings.Join(ops, ","), "backend": backend, "transport": string(mode)}
	viol := func(sig, what string) {
		r.Violation("C06", "C06:"+sig, what, cs, trace)
	}
	revalidations, replacements := 0, 0
	for i, op := range ops {
		step := c06step{Op: op}
		switch op {
		case "X":
			if stored != 0 {
				if err := p.P.VerifCacheSetExpires(key, time.Now().Add(-time.Hour)); err == nil {
					stale = true
					renewedBy304 = false
				}
			}
			trace = append(trace, step)
			continue
		case "C":
			w.mu.Lock()
			st.cur++
			w.mu.Unlock()
			trace = append(trace, step)
			continue
		case "E4", "E5":
			w.mu.Lock()
			st.pending = map[string]int{"E4": 404, "E5": 500}[op]
			st.seen = 0
			w.mu.Unlock()
			trace = append(trace, step)
			continue
		}
		// a client request
		q := rig.Req{Target: "/" + id}
		switch op {
		case "Gc":
			q.Header = [][2]string{{"If-None-Match", c06sentinelTag}, {"If-Modified-Since", c06sentinelDate}}
			if i%2 == 1 {
				q.Header = [][2]string{{"If-Match", c06sentinelTag}, {"If-Unmodified-Since", c06sentinelDate}}
			}
		case "Gh":
			// the client names the conditional header fields in its Connection header (hop-by-hop nomination):
			// that concerns the client's own fields, never the validators the proxy itself adds upstream
			q.Header = [][2]string{{"Connection", "If-None-Match, If-Modified-Since"}}
		case "Gd":
			// the obsolete but valid RFC 850 date form
			q.Header = [][2]string{{"If-Modified-Since", c06sentinel850}}
			if i%2 == 1 {
				q.Header = [][2]string{{"If-Unmodified-Since", c06sentinel850}, {"If-None-Match", "W/" + c06sentinelTag}}
			}
		}
		w.mu.Lock()
		cur, pending := st.cur, st.pending
		w.mu.Unlock()
		seq := o.LastSeq()
		resp := rig.Do(p, mode, o.Addr, q)
		w.mu.Lock()
		st.pending = 0 // the scripted error covered this client exchange (however many upstream requests it took)
		w.mu.Unlock()
		var got []rig.OriginReq
		for _, g := range o.Since(seq) {
			if g.Note == id {
				got = append(got, g)
			}
		}
		step.Status, step.XCache = resp.Status, resp.Get("X-Cache")
		if resp.Err == nil && resp.Status == 200 {
			bv := rig.CheckFull(resp.Body, 300)
			if bv.Kind == "complete" {
				step.BodyV = bv.V
			} else {
				step.BodyV = -1
			}
		}
		for _, g := range got {
			step.Upstream = append(step.Upstream, map[string]any{"If-None-Match": g.Header.Values("If-None-Match"), "If-Modified-Since": g.Header.Values("If-Modified-Since"),
				"If-Match": g.Header.Values("If-Match"), "If-Unmodified-Since": g.Header.Values("If-Unmodified-Since"), "answered": g.Status})
		}
		// ---- origin-side oracle
		for _, g := range got {
			for _, hn := range []string{"If-None-Match", "If-Modified-Since", "If-Match", "If-Unmodified-Since"} {
				for _, v := range g.Header.Values(hn) {
					if strings.Contains(v, "sentinel") || v == c06sentinelDate || v == c06sentinel850 {
						form := "imf-or-tag"
						if v == c06sentinel850 {
							form = "rfc850-date"
						}
						step.Expect = "no client conditional upstream"
						trace = append(trace, step)
						viol("client-conditional-forwarded:"+hn+":"+form, fmt.Sprintf("the client's %s: %s reached the origin", hn, v))
						trace = trace[:len(trace)-1]
					}
				}
			}
		}
		expectContact := stored == 0 || stale
		if resp.Err != nil {
			step.Expect = "a response"
			trace = append(trace, step)
			r.NotJudged("exchange-failed") // delivery is C09's business
			// model: unknown what happened; resynchronise conservatively by ending the history
			return
		}
		switch {
		case !expectContact:
			step.Expect = fmt.Sprintf("HIT v%d without origin contact", stored)
			trace = append(trace, step)
			if len(got) == 0 {
				if step.BodyV != stored {
					viol("hit-serves-wrong-version", fmt.Sprintf("fresh entry v%d expected, body is v%d", stored, step.BodyV))
				}
			} else if renewedBy304 {
				viol("304-did-not-renew-lifetime", fmt.Sprintf("the entry v%d was revalidated with a 304 a moment ago (default lifetime 1 h), yet the next request contacted the origin again", stored))
				renewedBy304 = false
				if resp.Status == 200 && step.BodyV > 0 {
					stored = step.BodyV
				}
			} else {
				r.NotJudged("fresh-entry-but-origin-contacted") // early contact: C03/C04 matter
				// resynchronise the model from what happened
				if resp.Status == 200 && step.BodyV > 0 {
					stored = step.BodyV
				}
			}
		case stored == 0:
			step.Expect = "unconditional fetch"
			trace = append(trace, step)
			if len(got) == 0 {
				viol("answered-without-entry", "nothing is stored, yet no request reached the origin")
				continue
			}
			for _, g := range got {
				if g.Header.Get("If-None-Match") != "" || g.Header.Get("If-Modified-Since") != "" {
					if !strings.Contains(g.Header.Get("If-None-Match")+g.Header.Get("If-Modified-Since"), "sentinel") && g.Header.Get("If-Modified-Since") != c06sentinelDate && g.Header.Get("If-Modified-Since") != c06sentinel850 {
						viol("conditional-without-stored-entry", fmt.Sprintf("nothing is stored, yet the origin received If-None-Match=%q If-Modified-Since=%q", g.Header.Get("If-None-Match"), g.Header.Get("If-Modified-Since")))
					}
				}
			}
			if pending != 0 {
				if resp.Status != pending || !strings.Contains(string(resp.Body), "origin error") {
					viol(fmt.Sprintf("error-not-relayed:%d", pending), fmt.Sprintf("origin answered %d, client received %d", pending, resp.Status))
				}
			} else if resp.Status == 200 && step.BodyV == cur {
				stored, stale = cur, false
			} else {
				viol("cold-fetch-wrong-answer", fmt.Sprintf("origin serves v%d, client received status %d body v%d", cur, resp.Status, step.BodyV))
			}
		default: // stored and stale: a revalidation must happen
			wantET, wantLM := c06etag(kind, resNo, stored), c06lastmod(kind, stored)
			step.Expect = fmt.Sprintf("revalidation with If-None-Match=%q If-Modified-Since=%q", wantET, wantLM)
			trace = append(trace, step)
			if len(got) == 0 {
				viol("stale-entry-served-without-revalidation", fmt.Sprintf("entry v%d was stale, yet no request reached the origin (C03 also)", stored))
				continue
			}
			g := got[0]
			inm, ims := g.Header.Get("If-None-Match"), g.Header.Get("If-Modified-Since")
			if wantET != "" && inm != wantET {
				viol("wrong-validator:if-none-match:"+kind, fmt.Sprintf("stored ETag is %q, the origin received If-None-Match=%q", wantET, inm))
			}
			if wantET == "" && inm != "" {
				viol("wrong-validator:if-none-match-invented:"+kind, fmt.Sprintf("no ETag was stored, the origin received If-None-Match=%q", inm))
			}
			if wantLM != "" && !c06sameDate(ims, wantLM) {
				viol("wrong-validator:if-modified-since:"+kind, fmt.Sprintf("stored Last-Modified is %q, the origin received If-Modified-Since=%q", wantLM, ims))
			}
			if wantLM == "" && ims != "" {
				// RFC 9110 allows the receipt time when the origin gave no Last-Modified; it must at least be a date, not a client value
				if t, err := http.ParseTime(ims); err != nil || time.Since(t) > time.Hour || time.Until(t) > time.Minute {
					viol("wrong-validator:if-modified-since-invented:"+kind, fmt.Sprintf("no Last-Modified was stored, the origin received If-Modified-Since=%q which is not the receipt time", ims))
				}
			}
			revalidations++
			switch {
			case pending != 0:
				if resp.Status != pending || !strings.Contains(string(resp.Body), "origin error") {
					viol(fmt.Sprintf("error-not-relayed:%d:during-revalidation", pending), fmt.Sprintf("origin answered the revalidation with %d, client received %d", pending, resp.Status))
				}
				// not stored; the old entry stays stale
			case g.Status == 304:
				if resp.Status != 200 || step.BodyV != stored {
					viol("304-does-not-keep-stored-body", fmt.Sprintf("origin said 304 for v%d, client received status %d body v%d", stored, resp.Status, step.BodyV))
				}
				if resp.Get("X-Cache") != "REVALIDATED" {
					viol("304-not-labelled-revalidated", "after a 304 the response is labelled X-Cache="+resp.Get("X-Cache"))
				}
				stale = false // renewed by the default lifetime (1 h here)
				renewedBy304 = true
				r.Count("revalidated_304", 1)
			case g.Status == 200:
				if resp.Status != 200 || step.BodyV != cur {
					viol("200-does-not-replace", fmt.Sprintf("origin answered 200 with v%d, client received status %d body v%d", cur, resp.Status, step.BodyV))
				}
				if len(got) > 1 {
					r.Count("extra_origin_requests_on_replacement", int64(len(got)-1))
				}
				replacedBelow, stored, stale = cur, cur, false
				renewedBy304 = false
				replacements++
				r.Count("replaced_200", 1)
			}
		}
		if resp.Status == 200 && step.BodyV > 0 && step.BodyV < replacedBelow {
			viol("old-body-after-replacement", fmt.Sprintf("v%d was replaced by v%d earlier in this history, yet v%d was served", step.BodyV, replacedBelow, step.BodyV))
		}
	}
	if revalidations > 0 {
		r.Nontrivial(kind, strings.Join(ops, ","), backend, string(mode))
	}
	r.Count("histories_with_revalidation", int64(min(revalidations, 1)))
	_ = replacements
}

func c06Run(b core.Batch, r *core.Recorder) {
	rig.QuietLogs()
	w := &c06world{res: map[string]*c06resState{}}
	o := rig.StartOrigin(w.handler)
	defer o.Close()
	backend := b.Str("backend", "memory")
	mode := rig.Mode(b.Str("transport", "plain"))
	p := rig.StartProxy(rig.ProxyOpts{Backend: backend})
	defer p.Close()
	n := 0
	run := func(kind string, ops []string) {
		n++
		id := fmt.Sprintf("%s-%s-%s-%d", backend, mode, kind, n)
		if !r.Case(id, map[string]any{"kind": kind, "ops": strings.Join(ops, ",")}) {
			return
		}
		c06hist(r, p, o, w, mode, backend, kind, id, n%60000, append([]string{"G"}, ops...))
		if n == 3 {
			r.Sample(map[string]any{"id": id, "kind": kind, "ops": append([]string{"G"}, ops...), "legend": "G get, Gc get with client conditionals (sentinels), Gd same in RFC 850 date form, X force-expire, C origin changes content, E4/E5 origin answers next request 404/500"})
		}
	}
	depth := b.Int("depth", 3)
	part, parts := b.Int("part", 0), b.Int("parts", 1)
	idx := 0
	for _, kind := range c06kinds {
		for d := 1; d <= depth; d++ {
			seq := make([]string, d)
			var rec func(i int)
			rec = func(i int) {
				if i == d {
					idx++
					if idx%parts == part {
						run(kind, append([]string(nil), seq...))
					}
					return
				}
				for _, a := range c06alphabet {
					seq[i] = a
					rec(i + 1)
				}
			}
			rec(0)
		}
	}
	// fixed longer histories for every kind: repeated revalidations of one entry, with and without content changes
	for ki, kind := range c06kinds {
		for hi, h := range []string{"X,G,X,G,X,G", "X,G,C,X,G,X,G", "C,X,G,X,G,C,X,G,G", "X,G,X,G,C,X,G,X,G,C,X,G", "X,Gc,X,Gd,C,X,Gh,X,G"} {
			if (ki*5+hi)%parts == part {
				run(kind, strings.Split(h, ","))
			}
		}
	}
	rng := b.Rand("c06")
	for i := 0; i < b.Int("random", 50); i++ {
		l := depth + 1 + rng.IntN(10)
		seq := make([]string, l)
		for k := range seq {
			seq[k] = c06alphabet[rng.IntN(len(c06alphabet))]
			if rng.IntN(3) == 0 {
				seq[k] = "G"
			}
		}
		run(c06kinds[rng.IntN(len(c06kinds))], seq)
	}
}

func c06Plan(tier string, seed int64) []core.Batch {
	depth, rnd := 3, 60
	if tier == "thorough" {
		depth, rnd = 4, 20000
	}
	var bs []core.Batch
	for _, be := range []string{"memory", "file"} {
		bs = append(bs, core.Batch{Name: "plain-" + be, TimeoutS: 1800, Args: map[string]any{"backend": be, "transport": "plain", "depth": depth, "random": rnd}})
		// tunnel: every 4th history
		bs = append(bs, core.Batch{Name: "tunnel-" + be, TimeoutS: 1800, Args: map[string]any{"backend": be, "transport": "tunnel", "depth": depth, "random": rnd, "part": 1, "parts": 4}})
	}
	return bs
}

func init() {
	core.Register(&core.Monitor{
		ID:    "C06",
		Level: "exploration",
		Rule: "per resource: an initial GET followed by every sequence up to <depth> over {G, Gc (client If-None-Match/If-Modified-Since or If-Match/If-Unmodified-Since carrying sentinels), Gd (same with RFC 850 dates / weak tag), Gh (client Connection header nominating the conditional field names), X (force-expire the stored entry), C (origin changes content and validators), E4, E5 (origin answers the next request 404 / 500)} plus seeded random sequences up to depth+10, " +
			"5 fixed histories with repeated revalidations, for each validator kind {ETag+Last-Modified, ETag only, Last-Modified only, none, weak ETag, Last-Modified in RFC 850 form, in asctime form, a coarse ETag that stays the same while content and date change (origin validates by date and answers 200 with the stored tag), origins whose 304 carries no validator header, an origin whose 304 itself says max-age=0 / past Expires}, both backends, plain (all) and tunnel (every 4th). A sequential model of what the proxy must hold predicts every origin-side request (validators) and client response. Non-trivial = distinct history with at least one revalidation.",
		Assumptions: []string{"entries are made stale through the tag-guarded expiry accessor instead of sleeping; the lifetime logic itself is C03's subject", "when the origin sent no Last-Modified, If-Modified-Since may be absent or the receipt time",
			"a request reaching the origin although the entry is fresh is not judged here (C03/C04)"},
		Plan:     c06Plan,
		Run:      c06Run,
		Parallel: 4,
		Floors:   map[string]map[string]int64{"quick": {"revalidated_304": 300, "replaced_200": 150}, "thorough": {"revalidated_304": 4000, "replaced_200": 2000}},
	})
}
