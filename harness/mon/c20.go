package mon

// C20 — the dashboard API needs a live session obtained with the right password.
//
// In-process server = middleware.Harden(mux) with api.New(cfg).RegisterHandlers(mux) over a
// migrated SQLite database in the scratch cwd. The route table comes from the tag-guarded
// VerifRoutes(). Parts: route sweep over cookie classes (with effect snapshots), session
// model histories (sequential and concurrent), password / stored-hash classes, cross-site
// header combinations.

import (
	"bytes"
	"encoding/base64"
	"encoding/json"
	"fmt"
	"io"
	"net"
	"net/http"
	"os"
	"strconv"
	"strings"
	"sync"
	"sync/atomic"
	"time"

	"golang.org/x/crypto/argon2"

	"reservoir/config"
	"reservoir/db"
	"reservoir/webserver/api"
	"reservoir/webserver/auth"
	"reservoir/webserver/middleware"
	"verifharness/core"
	"verifharness/rig"
)

type c20srv struct {
	cfg    *config.Config
	api    *api.API
	addr   string
	srv    *http.Server
	errLog *rig.SyncBuf
	client *http.Client
}

func c20start() *c20srv {
	rig.QuietLogs()
	os.MkdirAll("var", 0o755)
	if err := db.MigrateDatabases(); err != nil {
		panic(err)
	}
	cfg, err := config.LoadOrDefault("var/config.json")
	if err != nil {
		panic(err)
	}
	a := api.New(cfg)
	mux := http.NewServeMux()
	if err := a.RegisterHandlers(mux); err != nil {
		panic(err)
	}
	ln, _ := net.Listen("tcp", "127.0.0.1:0")
	el := &rig.SyncBuf{}
	s := &c20srv{cfg: cfg, api: a, addr: ln.Addr().String(), errLog: el}
	s.srv = &http.Server{Handler: middleware.Harden(mux), ErrorLog: newLogger(el)}
	go s.srv.Serve(ln)
	s.client = &http.Client{Timeout: 8 * time.Second, CheckRedirect: func(*http.Request, []*http.Request) error { return http.ErrUseLastResponse }}
	return s
}

type c20resp struct {
	Status    int
	Body      string
	SetCookie string
	Err       error
}

func (s *c20srv) do(method, path, cookie string, body string, hdr map[string]string) c20resp {
	var rd io.Reader
	if body != "" {
		rd = strings.NewReader(body)
	}
	req, _ := http.NewRequest(method, "http://"+s.addr+path, rd)
	if cookie != "" {
		req.Header.Set("Cookie", cookie)
	}
	if body != "" {
		req.Header.Set("Content-Type", "application/json")
	}
	for k, v := range hdr {
		req.Header.Set(k, v)
	}
	resp, err := s.client.Do(req)
	if err != nil {
		return c20resp{Err: err}
	}
	defer resp.Body.Close()
	b, _ := io.ReadAll(io.LimitReader(resp.Body, 1<<16))
	return c20resp{Status: resp.StatusCode, Body: string(b), SetCookie: resp.Header.Get("Set-Cookie")}
}

func c20sidCookie(sid string) string { return "reservoir.sid=" + sid }

// c20hash builds a PHC string with cheap parameters for password pw.
func c20hash(pw string, salt []byte) string {
	const m, t, p, l = 64, 1, 1, 32
	h := argon2.IDKey([]byte(pw), salt, t, m, p, l)
	return fmt.Sprintf("$argon2id$v=19$m=%d,t=%d,p=%d,l=%d$%s$%s", m, t, p, l, base64.RawStdEncoding.EncodeToString(salt), base64.RawStdEncoding.EncodeToString(h))
}

func c20setHash(hash string) error {
	d, err := db.OpenMainDatabase()
	if err != nil {
		return err
	}
	defer d.Close()
	return d.Exec("UPDATE users SET password_hash = ?, password_change_required = 0 WHERE username = 'admin'", hash)
}

func c20userRow() string {
	d, err := db.OpenMainDatabase()
	if err != nil {
		return "db-error:" + err.Error()
	}
	defer d.Close()
	var row struct {
		H string `db:"password_hash"`
		R bool   `db:"password_change_required"`
	}
	if err := d.Get(&row, "SELECT password_hash, password_change_required FROM users WHERE username = 'admin'"); err != nil {
		return "db-error:" + err.Error()
	}
	return fmt.Sprintf("%s|%v", row.H, row.R)
}

type c20state struct {
	cfg  string
	file string
	user string
}

func (s *c20srv) state() c20state {
	cv, _ := json.Marshal(cfgWalk(s.cfg))
	fb, _ := os.ReadFile("var/config.json")
	return c20state{cfg: string(cv), file: string(fb), user: c20userRow()}
}

var c20salt16 = []byte("0123456789abcdef")

func c20bodyFor(method, path string) string {
	switch {
	case strings.HasSuffix(path, "/config") && method == "PATCH":
		return `{"logging":{"max_backups":17},"proxy":{"retry_on_invalid_range":true}}`
	case strings.HasSuffix(path, "/change-password"):
		return `{"current_password":"right-password","new_password":"hacked"}`
	case strings.HasSuffix(path, "/login"):
		return `{"username":"admin","password":"right-password"}`
	}
	return ""
}

// ---- route sweep ------------------------------------------------------------------------------

func c20RunRoutes(b core.Batch, r *core.Recorder) {
	s := c20start()
	defer s.srv.Close()
	if err := c20setHash(c20hash("right-password", c20salt16)); err != nil {
		r.Inconclusive("cannot prepare user row: " + err.Error())
		return
	}
	routes := s.api.VerifRoutes()
	r.Note("routes", routes)
	methods := []string{"GET", "POST", "PATCH", "PUT", "DELETE", "HEAD", "OPTIONS"}
	registered := map[string]bool{}
	paths := map[string]bool{}
	for _, rt := range routes {
		registered[rt.Method+" "+rt.Path] = true
		paths[rt.Path] = true
	}
	expiredBy := map[string]time.Duration{"expired-1ns": time.Nanosecond, "expired-1s": time.Second, "expired-9min": 9 * time.Minute, "expired-1h": time.Hour, "expired-10y": 10 * 365 * 24 * time.Hour}
	classes := []string{"absent", "random", "malformed", "empty-value", "logged-out", "expired-1ns", "expired-1s", "expired-9min", "expired-1h", "expired-10y", "other-cookie-name"}
	for path := range paths {
		for _, method := range methods {
			isReg := registered[method+" "+path]
			isLogin := strings.HasSuffix(path, "/auth/login")
			for _, class := range classes {
				id := fmt.Sprintf("%s %s [%s]", method, path, class)
				if !r.Case(id, nil) {
					continue
				}
				r.Eval(1)
				var sess *auth.Session
				cookie := ""
				switch class {
				case "random":
					cookie = c20sidCookie("AAAAAAAAAAAAAAAAAAAAAAAAAA")
				case "malformed":
					cookie = "reservoir.sid=\"; DROP TABLE users; --"
				case "empty-value":
					cookie = "reservoir.sid="
				case "other-cookie-name":
					live := auth.CreateSession(1)
					cookie = "sid=" + live.ID + "; reservoir_sid=" + live.ID
					defer live.Destroy()
				case "logged-out":
					sess = auth.CreateSession(1)
					cookie = c20sidCookie(sess.ID)
					lo := s.do("POST", "/api/auth/logout", cookie, "", nil)
					if lo.Status != 204 {
						r.NotJudged("logout-did-not-succeed")
						continue
					}
				default:
					if d, ok := expiredBy[class]; ok {
						sess = auth.CreateSession(1)
						sess.ExpiresAt = time.Now().Add(-d)
						cookie = c20sidCookie(sess.ID)
					}
				}
				before := s.state()
				exp0 := time.Time{}
				if sess != nil {
					exp0 = sess.ExpiresAt
				}
				resp := s.do(method, path, cookie, c20bodyFor(method, path), nil)
				resp2 := resp
				if strings.HasPrefix(class, "expired") {
					resp2 = s.do(method, path, cookie, c20bodyFor(method, path), nil) // presented twice: refused twice
				}
				after := s.state()
				r.Nontrivial(id)
				r.Count("route_cookie_combinations", 1)
				cs := map[string]any{"id": id, "method": method, "path": path, "cookie_class": class, "registered": isReg}
				wit := map[string]any{"status": resp.Status, "status_second": resp2.Status, "body": core.Trunc(resp.Body, 200), "err": fmt.Sprint(resp.Err)}
				if resp.Err != nil {
					r.Violation("C20", "C20:request-unanswered:"+class, fmt.Sprintf("%s: no response: %v", id, resp.Err), cs, wit)
					continue
				}
				route := strings.TrimPrefix(path, "/api")
				if !(isLogin && method == "POST") {
					for _, rr := range []c20resp{resp, resp2} {
						okStatus := rr.Status == 401 || (!isReg && (rr.Status == 404 || rr.Status == 405))
						if !okStatus {
							cls := class
							if strings.HasPrefix(class, "expired") {
								cls = "expired"
							}
							sig := fmt.Sprintf("C20:accepted-without-live-session:%s", cls)
							if cls == "expired" {
								sig = "C20:expired-session-accepted"
							}
							r.Violation("C20", sig, fmt.Sprintf("%s %s with a %s session cookie was answered %d instead of 401", method, route, class, rr.Status), cs, wit)
							break
						}
					}
					if before != after {
						what := "config"
						if before.user != after.user {
							what = "user-row"
						}
						r.Violation("C20", "C20:effect-without-live-session:"+what, fmt.Sprintf("%s %s with a %s session cookie changed the %s", method, route, class, what), cs, wit)
						// restore for the following cases
						c20setHash(c20hash("right-password", c20salt16))
					}
				}
				if sess != nil && strings.HasPrefix(class, "expired") && sess.ExpiresAt.After(exp0) {
					r.Violation("C20", "C20:expired-session-revived", fmt.Sprintf("a session expired %v ago was presented; its expiry was moved to %v in the future", expiredBy[class], time.Until(sess.ExpiresAt).Round(time.Minute)), cs, wit)
				}
				if sess != nil {
					sess.Destroy()
				}
			}
		}
	}
	// positive control: a live session is accepted on the cheap GET routes
	live := auth.CreateSession(1)
	for _, rt := range routes {
		if rt.Method != "GET" || strings.Contains(rt.Path, "/log") {
			continue
		}
		resp := s.do("GET", rt.Path, c20sidCookie(live.ID), "", nil)
		r.Eval(1)
		if resp.Status == 401 || resp.Err != nil {
			r.Violation("C20", "C20:live-session-refused", fmt.Sprintf("GET %s with a live session was answered %d (%v)", rt.Path, resp.Status, resp.Err), map[string]any{"id": "live " + rt.Path}, nil)
		} else {
			r.Count("live_session_controls_ok", 1)
		}
	}
	live.Destroy()
	r.Sample(map[string]any{"part": "routes", "routes": len(routes), "methods": methods, "cookie_classes": classes})
}

// ---- session model ----------------------------------------------------------------------------------

func c20RunSessions(b core.Batch, r *core.Recorder) {
	s := c20start()
	defer s.srv.Close()
	c20setHash(c20hash("right-password", c20salt16))
	// fixed histories: a session with little (or much) of its lifetime left is used and / or logged out; after the
	// logout the cookie must be dead at once and stay dead
	for li, left := range []time.Duration{time.Second, 30 * time.Second, 5 * time.Minute, 9 * time.Minute, 10 * time.Minute, 11 * time.Minute, 50 * time.Minute} {
		for variant := 0; variant < 2; variant++ {
			id := fmt.Sprintf("age%d-%d", li, variant)
			if !r.Case(id, map[string]any{"lifetime_left": left.String(), "use_before_logout": variant == 1}) {
				continue
			}
			r.Eval(1)
			cs := map[string]any{"id": id, "lifetime_left_at_logout": left.String(), "used_before_logout": variant == 1}
			resp := s.do("POST", "/api/auth/login", "", `{"username":"admin","password":"right-password"}`, nil)
			if resp.Status != 200 || !strings.Contains(resp.SetCookie, "reservoir.sid=") {
				r.Violation("C20", "C20:login:right-password-refused", fmt.Sprintf("login with the right password was answered %d", resp.Status), cs, nil)
				continue
			}
			sid := strings.SplitN(strings.SplitN(resp.SetCookie, "reservoir.sid=", 2)[1], ";", 2)[0]
			se, ok := auth.GetSession(sid)
			if !ok || se == nil {
				r.NotJudged("session-not-found-after-login")
				continue
			}
			se.ExpiresAt = time.Now().Add(left)
			if variant == 1 {
				if u := s.do("GET", "/api/auth/me", c20sidCookie(sid), "", nil); u.Status != 200 {
					r.Violation("C20", "C20:live-session-refused", fmt.Sprintf("a session with %v left was refused (%d)", left, u.Status), cs, nil)
				}
			}
			if lo := s.do("POST", "/api/auth/logout", c20sidCookie(sid), "", nil); lo.Status != 204 {
				r.Violation("C20", "C20:logout-of-live-session-failed", fmt.Sprintf("status %d", lo.Status), cs, nil)
			}
			for k := 0; k < 2; k++ {
				if u := s.do("GET", "/api/auth/me", c20sidCookie(sid), "", nil); u.Status != 401 {
					r.Violation("C20", "C20:dead-session-accepted:use-after-logout", fmt.Sprintf("the session was logged out with %v of its lifetime left; request %d afterwards with its cookie answered %d", left, k+1, u.Status), cs, nil)
					break
				}
			}
			if _, still := auth.GetSession(sid); still {
				r.Violation("C20", "C20:logged-out-session-still-in-the-store", fmt.Sprintf("the session was logged out with %v of its lifetime left and is still in the session store", left), cs, nil)
			}
			r.Count("logout_at_age_cases", 1)
			r.Nontrivial("logout-at-age", left.String(), variant)
		}
	}
	rng := b.Rand("c20-sessions")
	n := b.Int("n", 40)
	for h := 0; h < n; h++ {
		id := fmt.Sprintf("h%d", h)
		if !r.Case(id, nil) {
			continue
		}
		r.Eval(1)
		// model: sid -> state (live / expired / loggedout)
		type ms struct {
			cookie string
			live   bool
			sess   *auth.Session
		}
		var sessions []*ms
		var ops []string
		cs := map[string]any{"id": id}
		fail := func(sig, what string) {
			cs["ops"] = strings.Join(ops, ",")
			r.Violation("C20", "C20:"+sig, what, cs, nil)
		}
		for step := 0; step < 6+rng.IntN(10); step++ {
			switch op := rng.IntN(8); {
			case op == 6: // login as somebody who does not exist, with passwords an attacker would try first
				user := []string{"nobody", "administrator", "root", "", "admin2", "admin ", "admin\u0000"}[rng.IntN(7)] // (not "Admin": the users table compares names case-insensitively, COLLATE NOCASE)
				pass := []string{"right-password", "placeholder", "", "admin", "password"}[rng.IntN(5)]
				ops = append(ops, fmt.Sprintf("login-unknown-user(%q,%q)", user, pass))
				body, _ := json.Marshal(map[string]string{"username": user, "password": pass})
				resp := s.do("POST", "/api/auth/login", "", string(body), nil)
				if resp.Status == 200 || resp.SetCookie != "" {
					fail("login:unknown-user-accepted", fmt.Sprintf("login as %q (no such user) with password %q was answered %d with cookie %q", user, pass, resp.Status, resp.SetCookie))
				}
			case op == 7 && len(sessions) > 0: // age a live session: it stays live, with little (or much) of its lifetime left
				m := sessions[rng.IntN(len(sessions))]
				left := []time.Duration{30 * time.Second, 5 * time.Minute, 9 * time.Minute, 11 * time.Minute, 50 * time.Minute}[rng.IntN(5)]
				ops = append(ops, "age-to-"+left.String()+"-left")
				if m.live && m.sess != nil {
					m.sess.ExpiresAt = time.Now().Add(left)
				}
			case op == 0: // login ok
				ops = append(ops, "login-ok")
				resp := s.do("POST", "/api/auth/login", "", `{"username":"admin","password":"right-password"}`, nil)
				if resp.Status != 200 || !strings.Contains(resp.SetCookie, "reservoir.sid=") {
					fail("login:right-password-refused", fmt.Sprintf("login with the right password was answered %d", resp.Status))
					continue
				}
				sid := strings.SplitN(strings.SplitN(resp.SetCookie, "reservoir.sid=", 2)[1], ";", 2)[0]
				se, _ := auth.GetSession(sid)
				sessions = append(sessions, &ms{cookie: c20sidCookie(sid), live: true, sess: se})
			case op == 1: // login bad
				ops = append(ops, "login-bad")
				resp := s.do("POST", "/api/auth/login", "", `{"username":"admin","password":"wrong-password"}`, nil)
				if resp.Status == 200 || resp.SetCookie != "" {
					fail("login:wrong-password-accepted", fmt.Sprintf("login with a wrong password was answered %d with cookie %q", resp.Status, resp.SetCookie))
				}
			case len(sessions) == 0:
				continue
			case op == 2: // logout
				m := sessions[rng.IntN(len(sessions))]
				ops = append(ops, "logout")
				resp := s.do("POST", "/api/auth/logout", m.cookie, "", nil)
				if m.live && resp.Status != 204 {
					fail("logout-of-live-session-failed", fmt.Sprintf("status %d", resp.Status))
				}
				if !m.live && resp.Status != 401 {
					fail("dead-session-accepted:logout", fmt.Sprintf("logout with a dead session answered %d", resp.Status))
				}
				m.live = false
			case op == 3: // expire by m
				m := sessions[rng.IntN(len(sessions))]
				d := []time.Duration{time.Nanosecond, time.Second, 5 * time.Minute, time.Hour}[rng.IntN(4)]
				ops = append(ops, "expire-"+d.String())
				if m.sess != nil {
					m.sess.ExpiresAt = time.Now().Add(-d)
				}
				m.live = false
			default: // use
				m := sessions[rng.IntN(len(sessions))]
				ops = append(ops, fmt.Sprintf("use(live=%v)", m.live))
				resp := s.do("GET", "/api/auth/me", m.cookie, "", nil)
				if m.live && resp.Status != 200 {
					fail("live-session-refused", fmt.Sprintf("GET /auth/me with a live session answered %d", resp.Status))
				}
				if !m.live && resp.Status != 401 {
					fail("dead-session-accepted:use", fmt.Sprintf("GET /auth/me with a logged-out or expired session answered %d", resp.Status))
				}
			}
		}
		r.Nontrivial(strings.Join(ops, ","))
		r.Count("session_histories", 1)
		if h < 2 {
			r.Sample(map[string]any{"part": "sessions", "ops": ops})
		}
		for _, m := range sessions {
			if m.sess != nil {
				m.sess.Destroy()
			}
		}
	}
	// many sessions inside the extension threshold, each used by several requests at the same moment: the first
	// uses all want to extend it (feeds the race detector; every answer must be 200)
	{
		var swg sync.WaitGroup
		var refused, transportErrors atomic.Int64
		var firstRefusal atomic.Value
		for k := 0; k < b.Int("aged_sessions", 400); k++ {
			se := auth.CreateSession(1)
			se.ExpiresAt = time.Now().Add(time.Duration(1+k%9) * time.Minute)
			start := make(chan struct{})
			for g := 0; g < 4; g++ {
				swg.Add(1)
				go func() {
					defer swg.Done()
					<-start
					resp := s.do("GET", "/api/auth/me", c20sidCookie(se.ID), "", nil)
					switch {
					case resp.Err != nil:
						transportErrors.Add(1) // the client could not complete the exchange: nothing to judge
					case resp.Status != 200:
						if refused.Add(1) == 1 {
							firstRefusal.Store(fmt.Sprintf("status %d body %q", resp.Status, core.Trunc(resp.Body, 200)))
						}
					}
				}()
			}
			close(start)
			if k%8 == 7 {
				swg.Wait() // at most 8 sessions (32 requests) at a time: the point is the overlap within one session
			}
		}
		swg.Wait()
		if n := transportErrors.Load(); n > 0 {
			r.NotJudged(fmt.Sprintf("aged-session-requests-with-transport-errors:%d", n))
		}
		r.Eval(1)
		r.Count("concurrent_first_uses_of_aged_sessions", int64(b.Int("aged_sessions", 400)*4))
		if refused.Load() > 0 {
			r.Violation("C20", "C20:live-session-refused:concurrent-extension", fmt.Sprintf("%d of %d simultaneous requests with a live session close to its expiry were refused (first: %v)", refused.Load(), b.Int("aged_sessions", 400)*4, firstRefusal.Load()), map[string]any{"id": "aged-concurrent"}, nil)
		}
	}
	// concurrent use of live sessions (feeds the race detector; answers must stay correct)
	var wg sync.WaitGroup
	live := auth.CreateSession(1)
	live.ExpiresAt = time.Now().Add(5 * time.Minute) // inside the extension threshold: every use extends it
	bad := 0
	var mu sync.Mutex
	for g := 0; g < 8; g++ {
		wg.Add(1)
		go func() {
			defer wg.Done()
			for i := 0; i < 15; i++ {
				resp := s.do("GET", "/api/version", c20sidCookie(live.ID), "", nil)
				if resp.Status != 200 {
					mu.Lock()
					bad++
					mu.Unlock()
				}
				if i%5 == 0 {
					t := auth.CreateSession(1)
					s.do("POST", "/api/auth/logout", c20sidCookie(t.ID), "", nil)
				}
			}
		}()
	}
	wg.Wait()
	r.Eval(1)
	r.Count("concurrent_session_requests", 120)
	if bad > 0 {
		r.Violation("C20", "C20:live-session-refused:concurrent", fmt.Sprintf("%d of 120 concurrent requests with a live session were refused", bad), map[string]any{"id": "concurrent"}, nil)
	}
	live.Destroy()
}

// ---- password / stored hash --------------------------------------------------------------------------

func c20RunLogin(b core.Batch, r *core.Recorder) {
	s := c20start()
	defer s.srv.Close()
	rng := b.Rand("c20-login")
	pw := "correct horse"
	good := c20hash(pw, c20salt16)
	parts := strings.Split(good, "$") // "", argon2id, v=19, params, salt, hash
	mut := func(i int, v string) string {
		p := append([]string(nil), parts...)
		p[i] = v
		return strings.Join(p, "$")
	}
	type hc struct{ class, hash string }
	cases := []hc{
		{"valid-for-password", good},
		{"valid-for-password", c20hash(pw, []byte("fedcba9876543210"))},
		{"valid-for-other-password", c20hash("another password", c20salt16)},
		{"valid-for-empty-password", c20hash("", c20salt16)},
		{"malformed:empty", ""},
		{"malformed:wrong-id", mut(1, "argon2i")},
		{"malformed:no-version", mut(2, "19")},
		{"malformed:version-nan", mut(2, "v=x")},
		{"malformed:params-missing", mut(3, "")},
		{"malformed:m-zero", mut(3, "m=0,t=1,p=1,l=32")},
		{"malformed:t-zero", mut(3, "m=64,t=0,p=1,l=32")},
		{"malformed:p-zero", mut(3, "m=64,t=1,p=0,l=32")},
		{"malformed:p-overflow", mut(3, "m=64,t=1,p=256,l=32")},
		{"malformed:m-overflow", mut(3, "m=4294967296,t=1,p=1,l=32")},
		{"malformed:param-no-equals", mut(3, "m64,t=1,p=1")},
		{"malformed:l-mismatch", mut(3, "m=64,t=1,p=1,l=31")},
		{"malformed:salt-short", mut(4, base64.RawStdEncoding.EncodeToString([]byte("short")))},
		{"malformed:salt-long", mut(4, base64.RawStdEncoding.EncodeToString([]byte("0123456789abcdef0123456789abcdef")))},
		{"malformed:salt-17-bytes", mut(4, base64.RawStdEncoding.EncodeToString([]byte("0123456789abcdefX")))},
		{"malformed:salt-not-base64", mut(4, "!!!!")},
		{"malformed:salt-empty", mut(4, "")},
		{"malformed:hash-empty", mut(5, "")},
		{"malformed:hash-not-base64", mut(5, "%%%")},
		{"malformed:hash-truncated", mut(5, parts[5][:10])},
		{"malformed:too-few-parts", strings.Join(parts[:4], "$")},
		{"malformed:too-many-parts", good + "$extra"},
		{"malformed:plain-text", pw},
		{"malformed:bcrypt", "$2a$10$N9qo8uLOickgx2ZMRZoMyeIjZAgcfl7p92ldGxad68LJZdL17lhWy"},
		{"malformed:whitespace", "  " + good + "  "},
	}
	for i := 0; i < b.Int("random", 30); i++ {
		// random single-character mutations of a valid string
		bs := []byte(good)
		k := rng.IntN(len(bs))
		bs[k] = "$=,0aZ+/ "[rng.IntN(9)]
		cases = append(cases, hc{"mutated", string(bs)})
	}
	for i, c := range cases {
		id := fmt.Sprintf("l%d", i)
		if !r.Case(id, c) {
			continue
		}
		r.Eval(1)
		if err := c20setHash(c.hash); err != nil {
			r.NotJudged("cannot-write-user-row")
			continue
		}
		npan := strings.Count(s.errLog.String(), "panic serving")
		resp := s.do("POST", "/api/auth/login", "", fmt.Sprintf(`{"username":"admin","password":%q}`, pw), nil)
		r.Nontrivial(c.class, c.hash)
		r.Count("login_cases", 1)
		cs := map[string]any{"id": id, "class": c.class, "stored_hash": c.hash}
		panicked := strings.Count(s.errLog.String(), "panic serving") > npan
		switch {
		case panicked || resp.Err != nil:
			frame := ""
			if log := s.errLog.String(); strings.Contains(log, "http: panic serving") {
				_, frame = core.ClassifyAbort(log[strings.LastIndex(log, "http: panic serving"):])
			}
			r.Violation("C20", "C20:login-panics:"+c.class, fmt.Sprintf("login against a stored hash of class %s made the handler panic / left the request unanswered (%v) in %s", c.class, resp.Err, frame), cs, core.Trunc(s.errLog.String(), 3000))
		case c.class == "valid-for-password" && resp.Status != 200:
			r.Violation("C20", "C20:login:right-password-refused", fmt.Sprintf("the stored hash verifies for the password, login answered %d", resp.Status), cs, nil)
		case c.class == "malformed:whitespace" || c.class == "mutated":
			// may or may not still be a valid hash for the password: only "never 200 unless it verifies" is checked below
			if resp.Status == 200 && !c20verifies(c.hash, pw) {
				r.Violation("C20", "C20:login:accepted-although-hash-does-not-verify", fmt.Sprintf("stored hash %q does not verify for the password, yet login answered 200", c.hash), cs, nil)
			}
		case c.class != "valid-for-password" && resp.Status == 200:
			r.Violation("C20", "C20:login:accepted-although-hash-does-not-verify:"+c.class, fmt.Sprintf("stored hash of class %s, login answered 200", c.class), cs, nil)
		}
		if resp.Status == 200 && resp.SetCookie != "" {
			sid := strings.SplitN(strings.SplitN(resp.SetCookie, "reservoir.sid=", 2)[1], ";", 2)[0]
			if se, ok := auth.GetSession(sid); ok {
				se.Destroy()
			}
		}
	}
	// ---- near-miss passwords: only the exact password verifies, whatever its length
	login := func(password string) c20resp {
		body, _ := json.Marshal(map[string]string{"username": "admin", "password": password})
		return s.do("POST", "/api/auth/login", "", string(body), nil)
	}
	for _, L := range []int{1, 8, 55, 56, 64, 71, 72, 73, 100, 128, 255, 256, 1000} {
		id := fmt.Sprintf("near%d", L)
		if !r.Case(id, L) {
			continue
		}
		r.Eval(1)
		bs := make([]byte, L)
		for k := range bs {
			bs[k] = "abcdefghijklmnopqrstuvwxyzABCDEFGHIJKLMNOPQRSTUVWXYZ0123456789"[rng.IntN(62)]
		}
		pwd := string(bs)
		if err := c20setHash(c20hash(pwd, c20salt16)); err != nil {
			r.NotJudged("cannot-set-hash")
			continue
		}
		cs := map[string]any{"id": id, "password_length": L}
		if resp := login(pwd); resp.Status != 200 {
			r.Violation("C20", "C20:login:right-password-refused:length", fmt.Sprintf("the %d-byte password itself was refused (%d)", L, resp.Status), cs, nil)
			continue
		}
		wrong := map[string]string{"one-byte-longer": pwd + "x", "trailing-blank": pwd + " ", "trailing-nul": pwd + "\x00", "last-byte-changed": pwd[:L-1] + "#", "case-of-last-letter": pwd[:L-1] + strings.ToUpper(strings.ToLower(pwd[L-1:])) + ""}
		if L > 1 {
			wrong["one-byte-shorter"] = pwd[:L-1]
		}
		for _, k := range []int{8, 55, 56, 64, 72, 128, 255} {
			if L > k {
				wrong[fmt.Sprintf("same-first-%d-bytes", k)] = pwd[:k] + strings.Repeat("Z", L-k)
			}
		}
		for name, w := range wrong {
			if w == pwd {
				continue
			}
			resp := login(w)
			r.Count("near_miss_passwords_tried", 1)
			if resp.Status == 200 || resp.SetCookie != "" {
				r.Violation("C20", "C20:login:near-miss-password-accepted:"+name, fmt.Sprintf("stored hash is for a %d-byte password; a different password (%s) was answered %d with cookie %q", L, name, resp.Status, resp.SetCookie), cs, nil)
			}
		}
		r.Nontrivial("near-miss", L)
	}
	// ---- logins for one account at the same moment: each is judged on its own password
	{
		const m, t, p, l = 32768, 1, 1, 32 // a verification that takes some tens of milliseconds, as the real default does
		pwd := "the right one"
		h := argon2.IDKey([]byte(pwd), c20salt16, t, m, p, l)
		c20setHash(fmt.Sprintf("$argon2id$v=19$m=%d,t=%d,p=%d,l=%d$%s$%s", m, t, p, l, base64.RawStdEncoding.EncodeToString(c20salt16), base64.RawStdEncoding.EncodeToString(h)))
		for round, delay := range []time.Duration{0, time.Millisecond, 3 * time.Millisecond, 8 * time.Millisecond, 15 * time.Millisecond, 25 * time.Millisecond} {
			id := fmt.Sprintf("conc%d", round)
			if !r.Case(id, delay.String()) {
				continue
			}
			r.Eval(1)
			var wg sync.WaitGroup
			var good c20resp
			bad := make([]c20resp, 6)
			wg.Add(1)
			go func() { defer wg.Done(); good = login(pwd) }()
			time.Sleep(delay)
			for k := range bad {
				wg.Add(1)
				go func() { defer wg.Done(); bad[k] = login(fmt.Sprintf("a wrong one %d", k)) }()
			}
			wg.Wait()
			cs := map[string]any{"id": id, "wrong_logins_start_after": delay.String()}
			r.Count("concurrent_login_rounds", 1)
			r.Nontrivial("concurrent-login", round)
			if good.Status != 200 {
				r.Violation("C20", "C20:login:right-password-refused:concurrent", fmt.Sprintf("the right password was refused (%d) while wrong-password logins for the same account were in progress", good.Status), cs, nil)
			}
			for k, resp := range bad {
				if resp.Status == 200 || resp.SetCookie != "" {
					r.Violation("C20", "C20:login:wrong-password-accepted:during-a-concurrent-right-login", fmt.Sprintf("wrong-password login %d, started %v after a right-password login for the same account, was answered %d with cookie %q", k, delay, resp.Status, resp.SetCookie), cs, nil)
					break
				}
			}
		}
	}
	r.Sample(map[string]any{"part": "login", "classes": len(cases), "what": "the admin row's password_hash is rewritten with each PHC string; then POST /api/auth/login with the fixed password"})
}

// c20verifies recomputes argon2id for a well-formed cheap-parameter PHC string (independent of reservoir's parser).
func c20verifies(hash, pw string) bool {
	// surrounding white space and a missing leading '$' leave every field unambiguous: such a string still
	// "verifies" if the digest matches (demanding the leading '$' was a false alarm of the thorough sweep)
	h := strings.TrimSpace(hash)
	if !strings.HasPrefix(h, "$") {
		h = "$" + h
	}
	p := strings.Split(h, "$")
	if len(p) != 6 || p[1] != "argon2id" {
		return false
	}
	// parameters: m, t, p required in any order; l and unknown keys are optional (the PHC format allows extensions)
	var m, t, par uint64
	for _, seg := range strings.Split(p[3], ",") {
		k, v, ok := strings.Cut(seg, "=")
		if !ok {
			if seg == "" {
				continue
			}
			return false
		}
		n, err := strconv.ParseUint(v, 10, 32)
		switch k {
		case "m":
			if err != nil {
				return false
			}
			m = n
		case "t":
			if err != nil {
				return false
			}
			t = n
		case "p":
			if err != nil || n > 255 {
				return false
			}
			par = n
		}
	}
	if m == 0 || t == 0 || par == 0 || m > 1<<16 || t > 4 {
		return false
	}
	salt, err1 := base64.RawStdEncoding.DecodeString(p[4])
	want, err2 := base64.RawStdEncoding.DecodeString(p[5])
	if err1 != nil || err2 != nil || len(want) == 0 {
		return false
	}
	return bytes.Equal(argon2.IDKey([]byte(pw), salt, uint32(t), uint32(m), uint8(par), uint32(len(want))), want)
}

// ---- cross-site --------------------------------------------------------------------------------------

func c20RunCrossSite(b core.Batch, r *core.Recorder) {
	s := c20start()
	defer s.srv.Close()
	c20setHash(c20hash("right-password", c20salt16))
	routes := s.api.VerifRoutes()
	live := auth.CreateSession(1)
	defer live.Destroy()
	sites := []string{"", "same-origin", "same-site", "none", "cross-site", "CROSS-SITE", "garbage"}
	origins := map[string]string{"absent": "", "same": "http://" + s.addr, "foreign": "https://evil.example"}
	for _, rt := range routes {
		if strings.Contains(rt.Path, "/log") {
			continue
		}
		for _, method := range []string{rt.Method, "OPTIONS"} {
			for _, site := range sites {
				for oname, origin := range origins {
					id := fmt.Sprintf("%s %s site=%q origin=%s", method, rt.Path, site, oname)
					if !r.Case(id, nil) {
						continue
					}
					r.Eval(1)
					hdr := map[string]string{}
					if site != "" {
						hdr["Sec-Fetch-Site"] = site
					}
					if origin != "" {
						hdr["Origin"] = origin
					}
					before := s.state()
					resp := s.do(method, rt.Path, c20sidCookie(live.ID), c20bodyFor(method, rt.Path), hdr)
					after := s.state()
					r.Count("cross_site_combinations", 1)
					r.Nontrivial(id)
					if site != "cross-site" {
						r.NotJudged("site-ness-not-declared-cross-site")
						if before != after && method == "PATCH" {
							// a legitimate same-site PATCH changed something: put it back
							c20setHash(c20hash("right-password", c20salt16))
						}
						if strings.HasSuffix(rt.Path, "/logout") && resp.Status == 204 {
							live = auth.CreateSession(1)
						}
						continue
					}
					r.Count("declared_cross_site_requests", 1)
					cs := map[string]any{"id": id, "method": method, "path": rt.Path, "origin": oname}
					wit := map[string]any{"status": resp.Status, "body": core.Trunc(resp.Body, 120), "set_cookie": resp.SetCookie}
					if resp.Status != 403 || before != after || resp.SetCookie != "" {
						r.Violation("C20", "C20:cross-site-reaches-handler:origin-"+oname, fmt.Sprintf("%s %s declared cross-site by the browser (Sec-Fetch-Site: cross-site, Origin %s) was answered %d (state changed: %v, cookie set: %v)", method, strings.TrimPrefix(rt.Path, "/api"), oname, resp.Status, before != after, resp.SetCookie != ""), cs, wit)
						if before != after {
							c20setHash(c20hash("right-password", c20salt16))
						}
						if strings.HasSuffix(rt.Path, "/logout") && resp.Status == 204 {
							live = auth.CreateSession(1)
						}
					}
				}
			}
		}
	}
	r.Sample(map[string]any{"part": "cross-site", "sec_fetch_site": sites, "origin": []string{"absent", "same", "foreign"}})
}

func c20Run(b core.Batch, r *core.Recorder) {
	switch b.Str("part", "routes") {
	case "routes":
		c20RunRoutes(b, r)
	case "sessions":
		c20RunSessions(b, r)
	case "login":
		c20RunLogin(b, r)
	case "crosssite":
		c20RunCrossSite(b, r)
	}
}

func c20Plan(tier string, seed int64) []core.Batch {
	n, rnd := 40, 30
	if tier == "thorough" {
		n, rnd = 3000, 5000
	}
	return []core.Batch{
		{Name: "routes", TimeoutS: 1800, Args: map[string]any{"part": "routes"}},
		{Name: "sessions", Race: true, TimeoutS: 1800, Args: map[string]any{"part": "sessions", "n": n}},
		{Name: "login", TimeoutS: 1800, Args: map[string]any{"part": "login", "random": rnd}},
		{Name: "crosssite", TimeoutS: 1800, Args: map[string]any{"part": "crosssite"}},
	}
}

func init() {
	core.Register(&core.Monitor{
		ID:    "C20",
		Level: "exploration",
		Rule: "routes: every registered path (from the API's own endpoint list) x 7 methods x 11 cookie classes {absent, random, malformed, empty, logged-out, expired by 1 ns / 1 s / 9 min / 1 h / 10 y, session id under another cookie name}: 401 (404/405 for unregistered method/path pairs), no change of config (values + file) or of the user row, an expired cookie presented twice is refused twice and its expiry is not moved; live-session controls. " +
			"sessions: seeded histories over {login ok, login bad, login as a user that does not exist (with the right / the default / common passwords), logout, expire by 1 ns..1 h, age a live session to 30 s..50 min left, use} against a reference session table, plus 8 x 15 concurrent uses on the race build. login: near-miss passwords for stored passwords of 1..1000 bytes (one byte longer / shorter, changed last byte, same first 8..255 bytes), six wrong-password logins started 0..25 ms after a right-password login for the same account (a verification of some tens of ms), 29 stored-hash classes (valid for the password, valid for another, malformed in every field incl. over-long salt) + random one-character mutations; an independent argon2 recomputation decides whether a mutated hash still verifies. " +
			"cross-site: Sec-Fetch-Site in 7 forms x Origin {absent, same, foreign} x every route and OPTIONS; only 'cross-site' is judged (403, no effect). Non-trivial = distinct combination / history / hash.",
		Assumptions: []string{"/api/log and /api/log/stream are only probed without a live session (they need the process-global logger)", "site-ness cannot be decided from Origin alone: only requests the browser itself declares cross-site are judged", "stored hashes use cheap argon2 parameters so that the sweep is fast"},
		Plan:        c20Plan,
		Run:         c20Run,
		Parallel:    4,
		Floors:      map[string]map[string]int64{"quick": {"route_cookie_combinations": 800, "session_histories": 30, "login_cases": 50, "declared_cross_site_requests": 50, "live_session_controls_ok": 5}, "thorough": {"route_cookie_combinations": 800, "session_histories": 2500, "login_cases": 4000, "declared_cross_site_requests": 50, "live_session_controls_ok": 5}},
	})
}
