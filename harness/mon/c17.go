package mon

// C17 — saved config reads back identically; CLI overrides win but are not saved.
//
// (a) ByteSize: Parse/String round trip over boundary and random values; accept/meaning
//     oracle over all short strings of a small alphabet (big-integer reference).
// (b) round trip through the file: generated valid configurations are applied through
//     UpdatePartialFromConfig (which persists), then loaded by a FRESH process; every
//     property is compared.
// (c) overrides: a fresh process applies reservoir's own command-line flags, then a
//     sequence of API updates; overridden properties must keep the override, the live
//     logger must keep following it, the file must hold base values only, and a flag-less
//     reload must show the updated base values.

import (
	"context"
	"encoding/json"
	"fmt"
	"log/slog"
	"math/big"
	"os"
	"os/exec"
	"regexp"
	"runtime/debug"
	"strings"
	"time"

	"reservoir/config"
	"reservoir/logging"
	"reservoir/utils/bytesize"
	"verifharness/core"
	"verifharness/rig"
)

var reSizeDoc = regexp.MustCompile(`^[0-9]+[BKMGT]$`)
var reDigits = regexp.MustCompile(`^[0-9]+$`)

var c17units = map[byte]int64{'B': 1, 'K': 1 << 10, 'M': 1 << 20, 'G': 1 << 30, 'T': 1 << 40}

func c17RunSize(b core.Batch, r *core.Recorder) {
	// ---- String/Parse round trip
	rng := b.Rand("c17-size")
	vals := []int64{1, 2, 1023, 1024, 1025, 1536, 2047, 2048, 1<<20 - 1, 1 << 20, 1<<20 + 1, 3 << 19, 1<<30 - 1, 1 << 30, 1<<30 + 1, 1<<40 - 1, 1 << 40, 1<<40 + 1, 10 << 30, 500 << 20, 1<<62 + 12345, 1<<63 - 1}
	for sh := uint(0); sh <= 62; sh++ {
		// every power of two, its neighbours and small multiples: exact multiples of each unit, also beyond 1024T
		for _, m := range []int64{1, 3, 5, 1023, 1025} {
			if v := m << sh; v>>sh == m && v > 0 {
				vals = append(vals, v, v-1, v+1)
			}
		}
	}
	for i := 0; i < b.Int("n", 20000); i++ {
		switch i % 4 {
		case 0:
			vals = append(vals, rng.Int64N(1<<20)+1)
		case 1:
			vals = append(vals, rng.Int64N(1<<40)+1)
		case 2:
			vals = append(vals, (rng.Int64N(1<<20)+1)<<uint(10*rng.IntN(4)))
		default:
			vals = append(vals, rng.Int64()>>uint(rng.IntN(40))+1)
		}
	}
	for i, v := range vals {
		r.Eval(1)
		bs := bytesize.ByteSize(v)
		s := bs.String()
		back, err := bytesize.Parse(s)
		r.Nontrivial("roundtrip", v)
		if err != nil || int64(back) != v {
			cls := "not-a-unit-multiple"
			for _, u := range []int64{1 << 40, 1 << 30, 1 << 20, 1 << 10} {
				if v >= u && v%u == 0 {
					cls = "unit-multiple"
				}
			}
			r.Violation("C17", "C17:bytesize:string-does-not-read-back:"+cls, fmt.Sprintf("ByteSize(%d).String() = %q which parses back to %d (err=%v)", v, s, int64(back), err),
				map[string]any{"id": fmt.Sprintf("v%d", i), "value": v}, nil)
		}
		// JSON form too
		js, _ := json.Marshal(bs)
		var bj bytesize.ByteSize
		if err := json.Unmarshal(js, &bj); err != nil || int64(bj) != v {
			r.Count("json_roundtrip_mismatch", 1)
		}
	}
	// ---- accept / meaning oracle
	alpha := []string{"0", "1", "9", "B", "K", "M", "G", "T", "b", "k", " ", "-", ".", "x"}
	depth := b.Int("depth", 4)
	judge := func(s string) {
		r.Eval(1)
		var got bytesize.ByteSize
		var err error
		var pan any
		func() {
			defer func() {
				if e := recover(); e != nil {
					pan = fmt.Sprintf("%v\n%s", e, debug.Stack())
				}
			}()
			got, err = bytesize.Parse(s)
		}()
		cs := map[string]any{"id": "p:" + s, "input": s}
		if pan != nil {
			r.Violation("C17", "C17:bytesize:parse-panics", fmt.Sprintf("Parse(%q) panicked", s), cs, pan)
			return
		}
		if err != nil {
			return // rejected: always fine
		}
		r.Nontrivial("accepted", s)
		if reDigits.MatchString(s) {
			r.NotJudged("digits-without-unit")
			return
		}
		if !reSizeDoc.MatchString(s) {
			cls := "other"
			switch {
			case regexp.MustCompile(`^[0-9]+[BKMGT].+$`).MatchString(s):
				cls = "characters-after-unit"
			case regexp.MustCompile(`^[BKMGT]`).MatchString(s):
				cls = "no-digits"
			}
			r.Violation("C17", "C17:bytesize:accepts-undocumented-form:"+cls, fmt.Sprintf("Parse(%q) = %d: accepted although it is not digits followed by one unit letter", s, int64(got)), cs, nil)
			return
		}
		n, _ := new(big.Int).SetString(s[:len(s)-1], 10)
		want := new(big.Int).Mul(n, big.NewInt(c17units[s[len(s)-1]]))
		if !want.IsInt64() || want.Int64() != int64(got) {
			cls := "wrong-value"
			if !want.IsInt64() {
				cls = "overflow"
			}
			r.Violation("C17", "C17:bytesize:accepted-value-is-not-digits-times-unit:"+cls, fmt.Sprintf("Parse(%q) = %d, digits x unit = %s", s, int64(got), want), cs, nil)
		}
	}
	var rec func(cur string, d int)
	rec = func(cur string, d int) {
		if cur != "" {
			judge(cur)
		}
		if d == depth {
			return
		}
		for _, a := range alpha {
			rec(cur+a, d+1)
		}
	}
	rec("", 0)
	for _, s := range []string{"", "99999999999999999999T", "9223372036854775807B", "9223372036854775808B", "8388608T", "8388607T", "18446744073709551616K", "10Kxyz", "10KB", "10 K", "1e3K", "0x10K", "١K", "٣G", "１０G", "1٥K", "५M", "𝟏𝟎K", "1०B", "10K\n", "00010M", strings.Repeat("9", 40) + "G"} {
		judge(s)
	}
	// products around and beyond the int64 / uint64 boundaries: digits x unit that wraps modulo 2^64 (to a
	// negative or to an innocent-looking non-negative number) must be refused, the last representable one accepted
	for _, u := range "BKMGT" {
		unit := big.NewInt(c17units[byte(u)])
		for _, sh := range []uint{62, 63, 64, 65, 66, 70} {
			base := new(big.Int).Div(new(big.Int).Lsh(big.NewInt(1), sh), unit)
			for _, mul := range []int64{1, 3, 5} {
				for d := int64(-2); d <= 2; d++ {
					n := new(big.Int).Add(new(big.Int).Mul(base, big.NewInt(mul)), big.NewInt(d))
					if n.Sign() > 0 {
						judge(n.String() + string(u))
					}
				}
			}
		}
		for i := 0; i < b.Int("wrap", 400); i++ {
			// n·unit = 2^64·k + small: wraps to a small non-negative value
			k := big.NewInt(rng.Int64N(1<<16) + 1)
			prod := new(big.Int).Add(new(big.Int).Lsh(k, 64), new(big.Int).Mul(unit, big.NewInt(rng.Int64N(1<<20))))
			judge(new(big.Int).Div(prod, unit).String() + string(u))
			judge(new(big.Int).Add(new(big.Int).Lsh(big.NewInt(1), 63), big.NewInt(rng.Int64N(1<<62))).String() + string(u))
		}
	}
	r.Sample(map[string]any{"part": "bytesize", "roundtrip_values": len(vals), "alphabet": alpha, "depth": depth})
}

// ---- (b) file round trip -------------------------------------------------------------------------

func c17genConfig(b core.Batch, i int) map[string]any {
	rng := b.Rand(fmt.Sprintf("c17-cfg-%d", i))
	size := func() string {
		switch rng.IntN(4) {
		case 0:
			return fmt.Sprintf("%dB", rng.Int64N(1<<41)+1)
		case 1:
			return fmt.Sprintf("%d%c", rng.Int64N(1000)+1, "BKMGT"[rng.IntN(5)])
		case 2:
			return []string{"1B", "1023B", "1025B", "1536B", "1048577B", "9223372036854775807B", "8388607T"}[rng.IntN(7)]
		}
		return fmt.Sprintf("%dB", (rng.Int64N(1<<20)+1)*1024+int64(rng.IntN(2)))
	}
	dur := func() string {
		switch rng.IntN(3) {
		case 0:
			return time.Duration(rng.Int64N(int64(100*time.Hour)) + 1).String()
		case 1:
			return []string{"1ns", "1us", "999ms", "1h0m0.000000001s", "2562047h47m16.854775807s", "90m", "1.5h"}[rng.IntN(7)]
		}
		return (time.Duration(rng.IntN(10000)+1) * time.Second).String()
	}
	level := func() string {
		return []string{"DEBUG", "INFO", "WARN", "ERROR", "DEBUG-4", "INFO+2", "WARN+1", "ERROR+8", "info", "Warn"}[rng.IntN(10)]
	}
	str := func() string {
		return []string{"var/x", "a b", "ü/ñ", "\"quoted\"", "back\\slash", "line\nbreak", "/abs/path/", ":1", "[::1]:9", strings.Repeat("p", 300)}[rng.IntN(10)]
	}
	flat := map[string]any{
		"cache.max_cache_size":                     size(),
		"cache.cleanup_interval":                   dur(),
		"cache.lock_shards":                        []int{1, 2, 3, 1024, 65536, 7}[rng.IntN(6)],
		"cache.type":                               []string{"memory", "file"}[rng.IntN(2)],
		"cache.file.dir":                           str(),
		"cache.memory.memory_budget_percent":       []int{0, 1, 50, 99, 100}[rng.IntN(5)],
		"proxy.listen":                             str(),
		"proxy.ca_cert":                            str(),
		"proxy.ca_key":                             str(),
		"proxy.upstream_default_https":             rng.IntN(2) == 0,
		"proxy.retry_on_range_416":                 rng.IntN(2) == 0,
		"proxy.retry_on_invalid_range":             rng.IntN(2) == 0,
		"proxy.cache_policy.ignore_cache_control":  rng.IntN(2) == 0,
		"proxy.cache_policy.force_default_max_age": rng.IntN(2) == 0,
		"proxy.cache_policy.default_max_age":       dur(),
		"webserver.listen":                         str(),
		"webserver.dashboard_disabled":             rng.IntN(2) == 0,
		"webserver.api_disabled":                   rng.IntN(2) == 0,
		"logging.level":                            level(),
		"logging.file":                             str(),
		"logging.max_size":                         size(),
		"logging.max_backups":                      []int{0, 1, 3, 100}[rng.IntN(4)],
		"logging.compress":                         rng.IntN(2) == 0,
		"logging.to_stdout":                        false,
	}
	// a random subset, so that partial documents are covered too
	if rng.IntN(3) == 0 {
		for k := range flat {
			if rng.IntN(2) == 0 {
				delete(flat, k)
			}
		}
	}
	return flat
}

func c17spawn(dir string, args ...string) (map[string]any, string, error) {
	self, _ := os.Executable()
	cmd := exec.Command(self, append([]string{"aux"}, args...)...)
	cmd.Dir = dir
	cmd.Env = append(os.Environ(), "GORACE=")
	var stderr strings.Builder
	cmd.Stderr = &stderr
	out, err := cmd.Output()
	var res map[string]any
	dec := json.NewDecoder(strings.NewReader(string(out)))
	dec.UseNumber() // int64 values must not pass through float64
	if jerr := dec.Decode(&res); jerr != nil && err == nil {
		err = jerr
	}
	return res, stderr.String(), err
}

func c17RunRoundtrip(b core.Batch, r *core.Recorder) {
	rig.QuietLogs()
	wd, _ := os.Getwd()
	n := b.Int("n", 100)
	for i := 0; i < n; i++ {
		id := fmt.Sprintf("c%d", i)
		flat := c17genConfig(b, i)
		if !r.Case(id, flat) {
			continue
		}
		r.Eval(1)
		os.Remove("var/config.json")
		cfg := config.NewDefault()
		doc := cfgNest(flat)
		// through JSON, exactly like the API endpoint
		raw, _ := json.Marshal(doc)
		var updates map[string]any
		json.Unmarshal(raw, &updates)
		_, err := config.UpdatePartialFromConfig(cfg, updates)
		if err != nil {
			r.NotJudged("generated-config-rejected") // C18's subject
			continue
		}
		want := cfgWalk(cfg)
		res, stderr, err := c17spawn(wd, "cfg-load")
		cs := map[string]any{"id": id, "document": flat}
		if err != nil || res["values"] == nil {
			r.Violation("C17", "C17:saved-config-does-not-load", fmt.Sprintf("the configuration just saved cannot be loaded by a fresh process: %v %v %s", err, res["error"], core.Trunc(stderr, 300)), cs, nil)
			continue
		}
		got := res["values"].(map[string]any)
		r.Nontrivial("roundtrip", fmt.Sprint(flat))
		r.Count("configs_round_tripped", 1)
		// compare property by property; report per kind of value
		for k, wv := range want {
			gv := got[k]
			if fmt.Sprint(gv) == fmt.Sprint(wv) {
				continue
			}
			kind := "other"
			switch {
			case strings.HasSuffix(k, "size"):
				kind = "size"
			case strings.HasSuffix(k, "interval") || strings.HasSuffix(k, "max_age"):
				kind = "duration"
			case strings.HasSuffix(k, "level"):
				kind = "level"
			}
			r.Violation("C17", "C17:roundtrip-differs:"+kind, fmt.Sprintf("%s: effective value %v before saving, %v after loading the saved file in a fresh process", k, wv, gv), cs, map[string]any{"property": k, "before": wv, "after": gv})
			break
		}
		if i < 2 {
			r.Sample(flat)
		}
	}
}

// ---- (c) overrides --------------------------------------------------------------------------------

type c17ovIn struct {
	// Before: base values the configuration file holds before the process with the flags starts (applied and saved
	// by an earlier flag-less process), so that the file differs from the flags' built-in defaults
	Before  map[string]any   `json:"file_values_before,omitempty"`
	Flags   []string         `json:"flags"`
	Updates []map[string]any `json:"updates"`
}

// cfg-override: fresh process: load, apply flags, init logging, apply updates; print observations.
func auxCfgOverride(args []string) {
	var in c17ovIn
	raw, _ := os.ReadFile(args[0])
	json.Unmarshal(raw, &in)
	cfg, err := config.LoadOrDefault("var/config.json")
	if err != nil {
		json.NewEncoder(os.Stdout).Encode(map[string]any{"error": err.Error()})
		return
	}
	os.Args = append([]string{"reservoir"}, in.Flags...)
	config.OverrideFromFlags(cfg)
	logging.Init(cfg)
	var results []string
	for _, u := range in.Updates {
		_, err := config.UpdatePartialFromConfig(cfg, u)
		if err != nil {
			results = append(results, "rejected: "+err.Error())
		} else {
			results = append(results, "accepted")
		}
		time.Sleep(5 * time.Millisecond)
	}
	time.Sleep(30 * time.Millisecond) // asynchronous listeners
	enabled := map[string]bool{}
	for _, l := range []slog.Level{slog.LevelDebug, slog.LevelInfo, slog.LevelWarn, slog.LevelError} {
		enabled[l.String()] = slog.Default().Enabled(context.Background(), l)
	}
	json.NewEncoder(os.Stdout).Encode(map[string]any{"values": cfgWalk(cfg), "update_results": results, "logger_enabled": enabled})
}

func c17RunOverride(b core.Batch, r *core.Recorder) {
	rig.QuietLogs()
	wd, _ := os.Getwd()
	rng := b.Rand("c17-ov")
	type flagSpec struct {
		flag, prop string
		val        func() (string, any)
	}
	specs := []flagSpec{
		{"--log-level", "logging.level", func() (string, any) {
			l := []slog.Level{slog.LevelDebug, slog.LevelWarn, slog.LevelError}[rng.IntN(3)]
			return l.String(), int64(l)
		}},
		{"--listen", "proxy.listen", func() (string, any) { s := fmt.Sprintf(":%d", 10000+rng.IntN(1000)); return s, s }},
		{"--cache-dir", "cache.file.dir", func() (string, any) { s := fmt.Sprintf("var/ovcache%d/", rng.IntN(100)); return s, s }},
		{"--webserver-listen", "webserver.listen", func() (string, any) { s := fmt.Sprintf("localhost:%d", 20000+rng.IntN(1000)); return s, s }},
		{"--log-file-max-size", "logging.max_size", func() (string, any) { n := 1 + rng.IntN(900); return fmt.Sprintf("%dM", n), int64(n) << 20 }},
		{"--log-file-max-backups", "logging.max_backups", func() (string, any) { n := rng.IntN(50); return fmt.Sprint(n), int64(n) }},
		{"--log-file", "logging.file", func() (string, any) { s := fmt.Sprintf("var/ov%d.log", rng.IntN(100)); return s, s }},
	}
	n := b.Int("n", 30)
	for i := 0; i < n; i++ {
		id := fmt.Sprintf("o%d", i)
		os.Remove("var/config.json")
		in := c17ovIn{}
		overridden := map[string]any{}
		for _, sp := range specs {
			if rng.IntN(3) == 0 || (i%2 == 0 && sp.flag == "--log-level") {
				s, v := sp.val()
				in.Flags = append(in.Flags, sp.flag+"="+s)
				overridden[sp.prop] = v
			}
		}
		// updates: some address overridden properties, some others
		lastBase := map[string]any{}
		for k := 0; k < 1+rng.IntN(4); k++ {
			flat := map[string]any{}
			if rng.IntN(2) == 0 {
				lv := []string{"DEBUG", "INFO", "WARN", "ERROR"}[rng.IntN(4)]
				flat["logging.level"] = lv
				var l slog.Level
				l.UnmarshalText([]byte(lv))
				lastBase["logging.level"] = int64(l)
			}
			if rng.IntN(2) == 0 {
				s := fmt.Sprintf(":%d", 30000+rng.IntN(1000))
				flat["proxy.listen"] = s
				lastBase["proxy.listen"] = s
			}
			if rng.IntN(2) == 0 {
				nb := rng.IntN(40)
				flat["logging.max_backups"] = nb
				lastBase["logging.max_backups"] = int64(nb)
			}
			if rng.IntN(2) == 0 {
				nb := 1 + rng.IntN(90)
				flat["cache.memory.memory_budget_percent"] = nb
				lastBase["cache.memory.memory_budget_percent"] = int64(nb)
			}
			if len(flat) == 0 {
				flat["proxy.retry_on_range_416"] = k%2 == 0
				lastBase["proxy.retry_on_range_416"] = k%2 == 0
			}
			raw, _ := json.Marshal(cfgNest(flat))
			var u map[string]any
			json.Unmarshal(raw, &u)
			in.Updates = append(in.Updates, u)
		}
		if i%3 == 1 {
			// flags given with exactly their built-in default, over a file that says something else
			in.Before = map[string]any{"proxy.listen": ":5555", "logging.max_backups": 9, "webserver.listen": "localhost:7777", "cache.file.dir": "var/elsewhere/"}
			in.Flags = []string{"--listen=:9999", "--log-file-max-backups=3", "--webserver-listen=localhost:8080", "--cache-dir=var/cache/"}
			overridden = map[string]any{"proxy.listen": ":9999", "logging.max_backups": int64(3), "webserver.listen": "localhost:8080", "cache.file.dir": "var/cache/"}
		}
		if i%3 == 2 {
			// flags that say exactly what the file already says: still overrides, so a later API update of those
			// settings changes the file, not what is in effect
			in.Before = map[string]any{"proxy.listen": ":5566", "logging.max_backups": 11, "webserver.listen": "localhost:7788"}
			in.Flags = []string{"--listen=:5566", "--log-file-max-backups=11", "--webserver-listen=localhost:7788"}
			overridden = map[string]any{"proxy.listen": ":5566", "logging.max_backups": int64(11), "webserver.listen": "localhost:7788"}
			first := cfgNest(map[string]any{"proxy.listen": fmt.Sprintf(":%d", 31000+i), "logging.max_backups": 20 + i%10})
			raw, _ := json.Marshal(first)
			var u map[string]any
			json.Unmarshal(raw, &u)
			in.Updates = append([]map[string]any{u}, in.Updates...)
			lastBaseFirst := map[string]any{"proxy.listen": fmt.Sprintf(":%d", 31000+i), "logging.max_backups": int64(20 + i%10)}
			for k, v := range lastBaseFirst {
				if _, later := lastBase[k]; !later {
					lastBase[k] = v
				}
			}
		}
		if !r.Case(id, in) {
			continue
		}
		r.Eval(1)
		if in.Before != nil {
			pre := c17ovIn{Updates: []map[string]any{cfgNest(in.Before)}}
			praw, _ := json.Marshal(pre)
			os.WriteFile("ov-input.json", praw, 0o644)
			if pres, _, err := c17spawn(wd, "cfg-override", "ov-input.json"); err != nil || pres["values"] == nil {
				r.NotJudged("cannot-prepare-file-values")
				continue
			}
		}
		raw, _ := json.Marshal(in)
		os.WriteFile("ov-input.json", raw, 0o644)
		res, stderr, err := c17spawn(wd, "cfg-override", "ov-input.json")
		cs := map[string]any{"id": id, "input": in, "overridden": overridden}
		if err != nil || res["values"] == nil {
			r.Violation("C17", "C17:override-process-failed", fmt.Sprintf("the process applying flags and updates failed: %v %s", err, core.Trunc(stderr, 600)), cs, nil)
			continue
		}
		vals := res["values"].(map[string]any)
		r.Nontrivial("override", fmt.Sprint(in.Flags), fmt.Sprint(in.Updates))
		r.Count("override_histories", 1)
		num := func(v any) string { return fmt.Sprint(v) }
		// (1) overridden properties keep the override after the updates
		for prop, ov := range overridden {
			if num(vals[prop]) != fmt.Sprint(ov) {
				r.Violation("C17", "C17:override-lost-after-update:"+prop, fmt.Sprintf("%s was given on the command line as %v; after later API updates the effective value is %v", prop, ov, vals[prop]), cs, res)
			}
		}
		// (2) the live logger follows the override
		if ov, ok := overridden["logging.level"]; ok {
			en := res["logger_enabled"].(map[string]any)
			lvl := slog.Level(ov.(int64))
			for _, l := range []slog.Level{slog.LevelDebug, slog.LevelInfo, slog.LevelWarn, slog.LevelError} {
				if want := l >= lvl; en[l.String()] != want {
					r.Violation("C17", "C17:component-leaves-override:log-level", fmt.Sprintf("--log-level=%v is in force, yet after an API update of logging.level the logger has Enabled(%v)=%v", lvl, l, en[l.String()]), cs, res)
					break
				}
			}
		}
		// (3) the file holds base values only
		fileVals, fileRaw, ferr := cfgFileValues("var/config.json")
		if ferr != nil {
			r.Violation("C17", "C17:file-unreadable-after-updates", fmt.Sprint(ferr), cs, string(fileRaw))
			continue
		}
		defaults := cfgWalk(config.NewDefault())
		for prop, ov := range overridden {
			base, updated := lastBase[prop]
			fv := fileVals[prop]
			baseBefore := defaults[prop]
			if bv, ok := in.Before[prop]; ok {
				baseBefore = cfgNorm(bv)
			}
			if !updated && fmt.Sprint(baseBefore) == fmt.Sprint(ov) {
				continue // the override happens to equal the base value the file holds anyway
			}
			// what the file should hold: the updated base value if an update addressed it, else the default
			if updated && num(base) == fmt.Sprint(ov) {
				continue // the update itself set the same value
			}
			var fvn string
			switch prop {
			case "logging.level":
				var l slog.Level
				l.UnmarshalText([]byte(fmt.Sprint(fv)))
				fvn = fmt.Sprint(int64(l))
			case "logging.max_size":
				if p, err := bytesize.Parse(fmt.Sprint(fv)); err == nil {
					fvn = fmt.Sprint(int64(p))
				}
			default:
				fvn = num(fv)
			}
			if fvn == fmt.Sprint(ov) {
				r.Violation("C17", "C17:override-written-to-file:"+prop, fmt.Sprintf("%s=%v was given on the command line only, yet the saved file contains it", prop, ov), cs, string(fileRaw))
			}
		}
		// (4) a flag-less reload shows the updated base values
		re, _, err := c17spawn(wd, "cfg-load")
		if err == nil && re["values"] != nil {
			rv := re["values"].(map[string]any)
			for prop, base := range lastBase {
				if num(rv[prop]) != fmt.Sprint(base) {
					r.Violation("C17", "C17:updated-base-value-not-saved:"+prop, fmt.Sprintf("%s was updated to %v through the API; a restart without flags loads %v", prop, base, rv[prop]), cs, nil)
				}
			}
		}
		if i < 2 {
			r.Sample(in)
		}
	}
}

func c17Run(b core.Batch, r *core.Recorder) {
	switch b.Str("part", "size") {
	case "size":
		c17RunSize(b, r)
	case "roundtrip":
		c17RunRoundtrip(b, r)
	case "override":
		c17RunOverride(b, r)
	}
}

func c17Plan(tier string, seed int64) []core.Batch {
	n, depth, rt, ov := 20000, 4, 150, 40
	if tier == "thorough" {
		n, depth, rt, ov = 2000000, 6, 10000, 2000
	}
	return []core.Batch{
		{Name: "bytesize", TimeoutS: 1800, Args: map[string]any{"part": "size", "n": n, "depth": depth}},
		{Name: "roundtrip-a", TimeoutS: 1800, Args: map[string]any{"part": "roundtrip", "n": rt}},
		{Name: "override", TimeoutS: 1800, Args: map[string]any{"part": "override", "n": ov}},
	}
}

func init() {
	core.RegisterAux("cfg-override", auxCfgOverride)
	core.Register(&core.Monitor{
		ID:    "C17",
		Level: "exploration",
		Rule: "sizes: Parse(String(b)) == b for 22 boundary values and seeded random byte counts (arbitrary, not only unit multiples); every string up to <depth> symbols over {0,1,9,B,K,M,G,T,b,k,SP,-,.,x} plus 16 long/odd strings through Parse under recover: accepted => digits+unit form (bare digits not judged) and value = digits x unit in big-integer arithmetic. " +
			"file round trip: seeded valid configurations over every field (arbitrary byte counts, durations down to 1 ns and up to the maximum, levels with offsets, strings with quotes/newlines/non-ASCII, partial documents) applied through UpdatePartialFromConfig and loaded by a fresh process, compared property by property. " +
			"overrides: a fresh process applies reservoir's own flags (log level, listen addresses, cache dir, log file settings; every third history: flags given with exactly their built-in defaults over a file that holds other values; every third: flags that repeat what the file says, followed by an update of those very settings), then 1-4 API updates touching overridden and other properties: effective values, live logger level, file contents and a flag-less reload are checked. Non-trivial = distinct value / accepted string / configuration / override history.",
		Assumptions: []string{"bare digit strings (no unit) are not judged", "configurations the update path rejects are C18's subject and are not judged here"},
		Plan:        c17Plan,
		Run:         c17Run,
		Parallel:    3,
		Floors:      map[string]map[string]int64{"quick": {"configs_round_tripped": 100, "override_histories": 30}, "thorough": {"configs_round_tripped": 8000, "override_histories": 1800}},
	})
}
